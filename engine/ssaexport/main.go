// ssaexport: loads a Go module with go/packages, builds go/ssa (generics
// instantiated, debug refs on) and dumps the SSA of the module's own packages
// plus a type table as JSON. It is the front half of the verifier: the VC
// generator (engine/gocv, Python) consumes this dump, so the verified text is
// the SSA of the very files `go build` compiles.
package main

import (
	"encoding/json"
	"flag"
	"fmt"
	"go/ast"
	"go/constant"
	"go/token"
	"go/types"
	"os"
	"sort"
	"strings"

	"golang.org/x/tools/go/packages"
	"golang.org/x/tools/go/ssa"
	"golang.org/x/tools/go/ssa/ssautil"
)

type Operand struct {
	K string `json:"k"`           // reg param fv const global func builtin nil
	N string `json:"n,omitempty"` // name
	T string `json:"t"`           // type key
	V any    `json:"v,omitempty"` // constant value (string / bool / decimal string)
}

type Instr struct {
	Op     string    `json:"op"`
	Reg    string    `json:"reg,omitempty"`
	T      string    `json:"t,omitempty"`
	Line   int       `json:"line,omitempty"`
	Args   []Operand `json:"args,omitempty"`
	Tok    string    `json:"tok,omitempty"`    // BinOp/UnOp operator
	Field  int       `json:"field,omitempty"`  // Field/FieldAddr index, Extract index
	FName  string    `json:"fname,omitempty"`  // field name
	CommaOk bool     `json:"commaok,omitempty"`
	Method string    `json:"method,omitempty"` // invoke-mode method name
	Callee string    `json:"callee,omitempty"` // static callee full name
	Comment string   `json:"comment,omitempty"`
	Heap   bool      `json:"heap,omitempty"`
	AssertT string   `json:"assert_t,omitempty"`
	IsAddr bool      `json:"isaddr,omitempty"`
	Ident  string    `json:"ident,omitempty"`
	Edges  []int     `json:"edges,omitempty"` // phi: pred block indices
	IsString bool    `json:"isstring,omitempty"`
	Bindings []Operand `json:"bindings,omitempty"`
}

type Block struct {
	Idx     int     `json:"idx"`
	Comment string  `json:"comment"`
	Preds   []int   `json:"preds"`
	Succs   []int   `json:"succs"`
	Instrs  []Instr `json:"instrs"`
}

type Var struct {
	N string `json:"n"`
	T string `json:"t"`
}

type Func struct {
	Name      string  `json:"name"`
	Pkg       string  `json:"pkg"`
	Short     string  `json:"short"`
	File      string  `json:"file"`
	Line      int     `json:"line"`
	EndLine   int     `json:"endline"`
	Params    []Var   `json:"params"`
	FreeVars  []Var   `json:"freevars"`
	Results   []Var   `json:"results"`
	Recv      bool    `json:"recv"`
	Synthetic string  `json:"synthetic,omitempty"`
	Origin    string  `json:"origin,omitempty"`
	Parent    string  `json:"parent,omitempty"`
	Blocks    []Block `json:"blocks"`
	Recover   bool    `json:"recover,omitempty"`
	External  bool    `json:"external,omitempty"`
}

type Field struct {
	N        string `json:"n"`
	T        string `json:"t"`
	Embedded bool   `json:"embedded,omitempty"`
}

type Type struct {
	Kind    string   `json:"kind"`
	Name    string   `json:"name,omitempty"`
	Pkg     string   `json:"pkg,omitempty"`
	Under   string   `json:"under,omitempty"`
	Elem    string   `json:"elem,omitempty"`
	Key     string   `json:"key,omitempty"`
	Len     int64    `json:"len,omitempty"`
	Fields  []Field  `json:"fields,omitempty"`
	Methods []string `json:"methods,omitempty"` // interface: method names; named: method names in (T) and (*T) method sets
	PtrMethods []string `json:"ptrmethods,omitempty"`
	Params  []string `json:"params,omitempty"`
	Results []string `json:"results,omitempty"`
	Elems   []string `json:"elems,omitempty"`
	Impls   []string `json:"impls,omitempty"` // interface: concrete type keys implementing it (module + seen types)
	Sealed  bool     `json:"sealed,omitempty"`
	Variadic bool    `json:"variadic,omitempty"`
	Sigs    map[string]Sig `json:"sigs,omitempty"` // method name -> signature (interfaces and named types)
	Promoted map[string]string `json:"promoted,omitempty"` // named: method of (*T) promoted from an embedded field -> declaring receiver type
}

type Sig struct {
	Params  []string `json:"params"`
	Results []string `json:"results"`
}

func sigOf(f *types.Func) Sig {
	sg := f.Type().(*types.Signature)
	var s Sig
	for i := 0; i < sg.Params().Len(); i++ {
		s.Params = append(s.Params, tkey(sg.Params().At(i).Type()))
	}
	for i := 0; i < sg.Results().Len(); i++ {
		s.Results = append(s.Results, tkey(sg.Results().At(i).Type()))
	}
	return s
}

type Global struct {
	Name string `json:"name"`
	T    string `json:"t"`
	Pkg  string `json:"pkg"`
}

type Dump struct {
	Module  string            `json:"module"`
	Funcs   map[string]*Func  `json:"funcs"`
	Types   map[string]*Type  `json:"types"`
	Globals map[string]Global `json:"globals"`
	Consts  map[string]Operand `json:"consts"`
	Methods map[string]map[string]string `json:"methods"` // type key -> method name -> func full name
	Errors  []string          `json:"errors,omitempty"`
}

var dump = Dump{
	Funcs:   map[string]*Func{},
	Types:   map[string]*Type{},
	Globals: map[string]Global{},
	Consts:  map[string]Operand{},
	Methods: map[string]map[string]string{},
}

func qual(p *types.Package) string { return p.Path() }

var allNamed []*types.Named
var prog *ssa.Program

func tkey(t types.Type) string {
	if t == nil {
		return "<nil>"
	}
	t = types.Unalias(t)
	k := types.TypeString(t, qual)
	if _, ok := dump.Types[k]; ok {
		return k
	}
	ty := &Type{}
	dump.Types[k] = ty
	switch t := t.(type) {
	case *types.Basic:
		ty.Kind = "basic"
		ty.Name = t.Name()
	case *types.Named:
		ty.Kind = "named"
		ty.Name = t.Obj().Name()
		if t.Obj().Pkg() != nil {
			ty.Pkg = t.Obj().Pkg().Path()
		}
		ty.Under = tkey(t.Underlying())
		ms := types.NewMethodSet(t)
		for i := 0; i < ms.Len(); i++ {
			ty.Methods = append(ty.Methods, ms.At(i).Obj().Name())
		}
		pms := types.NewMethodSet(types.NewPointer(t))
		ty.Sigs = map[string]Sig{}
		for i := 0; i < pms.Len(); i++ {
			ty.PtrMethods = append(ty.PtrMethods, pms.At(i).Obj().Name())
			if f, ok := pms.At(i).Obj().(*types.Func); ok {
				ty.Sigs[f.Name()] = sigOf(f)
				if len(pms.At(i).Index()) > 1 {
					if sg, ok := f.Type().(*types.Signature); ok && sg.Recv() != nil {
						if ty.Promoted == nil {
							ty.Promoted = map[string]string{}
						}
						ty.Promoted[f.Name()] = sg.Recv().Type().String()
					}
				}
			}
		}
	case *types.Pointer:
		ty.Kind = "pointer"
		ty.Elem = tkey(t.Elem())
	case *types.Slice:
		ty.Kind = "slice"
		ty.Elem = tkey(t.Elem())
	case *types.Array:
		ty.Kind = "array"
		ty.Elem = tkey(t.Elem())
		ty.Len = t.Len()
	case *types.Map:
		ty.Kind = "map"
		ty.Key = tkey(t.Key())
		ty.Elem = tkey(t.Elem())
	case *types.Struct:
		ty.Kind = "struct"
		for i := 0; i < t.NumFields(); i++ {
			f := t.Field(i)
			ty.Fields = append(ty.Fields, Field{N: f.Name(), T: tkey(f.Type()), Embedded: f.Embedded()})
		}
	case *types.Interface:
		ty.Kind = "interface"
		ty.Sigs = map[string]Sig{}
		for i := 0; i < t.NumMethods(); i++ {
			m := t.Method(i)
			ty.Methods = append(ty.Methods, m.Name())
			ty.Sigs[m.Name()] = sigOf(m)
			if !m.Exported() {
				ty.Sealed = true
			}
		}
	case *types.Signature:
		ty.Kind = "signature"
		ty.Variadic = t.Variadic()
		for i := 0; i < t.Params().Len(); i++ {
			ty.Params = append(ty.Params, tkey(t.Params().At(i).Type()))
		}
		for i := 0; i < t.Results().Len(); i++ {
			ty.Results = append(ty.Results, tkey(t.Results().At(i).Type()))
		}
	case *types.Tuple:
		ty.Kind = "tuple"
		for i := 0; i < t.Len(); i++ {
			ty.Elems = append(ty.Elems, tkey(t.At(i).Type()))
		}
	case *types.Chan:
		ty.Kind = "chan"
		ty.Elem = tkey(t.Elem())
	case *types.TypeParam:
		ty.Kind = "typeparam"
		ty.Name = t.Obj().Name()
	default:
		ty.Kind = "other"
		ty.Name = fmt.Sprintf("%T", t)
	}
	return k
}

func constOperand(c *ssa.Const) Operand {
	op := Operand{K: "const", T: tkey(c.Type())}
	if c.Value == nil {
		op.K = "nil"
		return op
	}
	switch c.Value.Kind() {
	case constant.Bool:
		op.V = constant.BoolVal(c.Value)
	case constant.String:
		op.V = constant.StringVal(c.Value)
		op.N = "string"
	case constant.Int:
		op.V = c.Value.ExactString()
		op.N = "int"
	case constant.Float:
		op.V = c.Value.ExactString()
		op.N = "float"
	default:
		op.V = c.Value.ExactString()
		op.N = "other"
	}
	return op
}

func operand(v ssa.Value) Operand {
	switch v := v.(type) {
	case nil:
		return Operand{K: "none"}
	case *ssa.Const:
		return constOperand(v)
	case *ssa.Parameter:
		return Operand{K: "param", N: v.Name(), T: tkey(v.Type())}
	case *ssa.FreeVar:
		return Operand{K: "fv", N: v.Name(), T: tkey(v.Type())}
	case *ssa.Global:
		return Operand{K: "global", N: v.Pkg.Pkg.Path() + "." + v.Name(), T: tkey(v.Type())}
	case *ssa.Function:
		return Operand{K: "func", N: fullName(v), T: tkey(v.Type())}
	case *ssa.Builtin:
		return Operand{K: "builtin", N: v.Name(), T: tkey(v.Type())}
	default:
		return Operand{K: "reg", N: v.Name(), T: tkey(v.Type())}
	}
}

func fullName(f *ssa.Function) string {
	return f.String()
}

func line(p token.Pos) int {
	if !p.IsValid() {
		return 0
	}
	return prog.Fset.Position(p).Line
}

func exportFunc(f *ssa.Function, modPrefix string) {
	name := fullName(f)
	if _, ok := dump.Funcs[name]; ok {
		return
	}
	fn := &Func{Name: name, Short: f.Name(), Synthetic: f.Synthetic}
	dump.Funcs[name] = fn
	if f.Pkg != nil {
		fn.Pkg = f.Pkg.Pkg.Path()
	} else if f.Origin() != nil && f.Origin().Pkg != nil {
		fn.Pkg = f.Origin().Pkg.Pkg.Path()
	} else if f.Parent() != nil {
		p := f.Parent()
		for p.Parent() != nil {
			p = p.Parent()
		}
		if p.Pkg != nil {
			fn.Pkg = p.Pkg.Pkg.Path()
		} else if p.Origin() != nil && p.Origin().Pkg != nil {
			fn.Pkg = p.Origin().Pkg.Pkg.Path()
		}
	}
	if f.Origin() != nil {
		fn.Origin = fullName(f.Origin())
	}
	if f.Parent() != nil {
		fn.Parent = fullName(f.Parent())
	}
	if f.Pos().IsValid() {
		pos := prog.Fset.Position(f.Pos())
		fn.File = pos.Filename
		fn.Line = pos.Line
	}
	if syn := f.Syntax(); syn != nil {
		fn.EndLine = prog.Fset.Position(syn.End()).Line
	}
	fn.Recv = f.Signature.Recv() != nil
	for _, p := range f.Params {
		fn.Params = append(fn.Params, Var{N: p.Name(), T: tkey(p.Type())})
	}
	for _, p := range f.FreeVars {
		fn.FreeVars = append(fn.FreeVars, Var{N: p.Name(), T: tkey(p.Type())})
	}
	res := f.Signature.Results()
	for i := 0; i < res.Len(); i++ {
		fn.Results = append(fn.Results, Var{N: res.At(i).Name(), T: tkey(res.At(i).Type())})
	}
	if f.Blocks == nil {
		fn.External = true
		return
	}
	fn.Recover = f.Recover != nil
	for _, b := range f.Blocks {
		blk := Block{Idx: b.Index, Comment: b.Comment}
		for _, p := range b.Preds {
			blk.Preds = append(blk.Preds, p.Index)
		}
		for _, s := range b.Succs {
			blk.Succs = append(blk.Succs, s.Index)
		}
		for _, ins := range b.Instrs {
			blk.Instrs = append(blk.Instrs, exportInstr(ins))
		}
		fn.Blocks = append(fn.Blocks, blk)
	}
	for _, af := range f.AnonFuncs {
		exportFunc(af, modPrefix)
	}
}

func callCommon(in *Instr, c *ssa.CallCommon) {
	if c.IsInvoke() {
		in.Method = c.Method.Name()
		in.Args = append(in.Args, operand(c.Value))
	} else {
		in.Args = append(in.Args, operand(c.Value))
		if sc := c.StaticCallee(); sc != nil {
			in.Callee = fullName(sc)
		}
	}
	for _, a := range c.Args {
		in.Args = append(in.Args, operand(a))
	}
}

func exportInstr(ins ssa.Instruction) Instr {
	in := Instr{Line: line(ins.Pos())}
	if v, ok := ins.(ssa.Value); ok {
		in.Reg = v.Name()
		in.T = tkey(v.Type())
	}
	ops := func(vs ...ssa.Value) {
		for _, v := range vs {
			in.Args = append(in.Args, operand(v))
		}
	}
	switch x := ins.(type) {
	case *ssa.Alloc:
		in.Op = "Alloc"
		in.Heap = x.Heap
		in.Comment = x.Comment
	case *ssa.BinOp:
		in.Op = "BinOp"
		in.Tok = x.Op.String()
		ops(x.X, x.Y)
	case *ssa.UnOp:
		in.Op = "UnOp"
		in.Tok = x.Op.String()
		in.CommaOk = x.CommaOk
		ops(x.X)
	case *ssa.Call:
		in.Op = "Call"
		callCommon(&in, &x.Call)
	case *ssa.Go:
		in.Op = "Go"
		callCommon(&in, &x.Call)
	case *ssa.Defer:
		in.Op = "Defer"
		callCommon(&in, &x.Call)
	case *ssa.ChangeInterface:
		in.Op = "ChangeInterface"
		ops(x.X)
	case *ssa.ChangeType:
		in.Op = "ChangeType"
		ops(x.X)
	case *ssa.Convert:
		in.Op = "Convert"
		ops(x.X)
	case *ssa.MultiConvert:
		in.Op = "MultiConvert"
		ops(x.X)
	case *ssa.SliceToArrayPointer:
		in.Op = "SliceToArrayPointer"
		ops(x.X)
	case *ssa.DebugRef:
		in.Op = "DebugRef"
		in.IsAddr = x.IsAddr
		if id, ok := x.Expr.(*ast.Ident); ok {
			in.Ident = id.Name
		}
		in.Line = line(x.Expr.Pos())
		ops(x.X)
	case *ssa.Extract:
		in.Op = "Extract"
		in.Field = x.Index
		ops(x.Tuple)
	case *ssa.Field:
		in.Op = "Field"
		in.Field = x.Field
		st := x.X.Type().Underlying().(*types.Struct)
		in.FName = st.Field(x.Field).Name()
		ops(x.X)
	case *ssa.FieldAddr:
		in.Op = "FieldAddr"
		in.Field = x.Field
		st := x.X.Type().Underlying().(*types.Pointer).Elem().Underlying().(*types.Struct)
		in.FName = st.Field(x.Field).Name()
		ops(x.X)
	case *ssa.If:
		in.Op = "If"
		ops(x.Cond)
	case *ssa.Index:
		in.Op = "Index"
		ops(x.X, x.Index)
	case *ssa.IndexAddr:
		in.Op = "IndexAddr"
		ops(x.X, x.Index)
	case *ssa.Jump:
		in.Op = "Jump"
	case *ssa.Lookup:
		in.Op = "Lookup"
		in.CommaOk = x.CommaOk
		ops(x.X, x.Index)
	case *ssa.MakeChan:
		in.Op = "MakeChan"
	case *ssa.MakeClosure:
		in.Op = "MakeClosure"
		in.Callee = fullName(x.Fn.(*ssa.Function))
		for _, b := range x.Bindings {
			in.Bindings = append(in.Bindings, operand(b))
		}
	case *ssa.MakeInterface:
		in.Op = "MakeInterface"
		ops(x.X)
	case *ssa.MakeMap:
		in.Op = "MakeMap"
		ops(x.Reserve)
	case *ssa.MakeSlice:
		in.Op = "MakeSlice"
		ops(x.Len, x.Cap)
	case *ssa.MapUpdate:
		in.Op = "MapUpdate"
		ops(x.Map, x.Key, x.Value)
	case *ssa.Next:
		in.Op = "Next"
		in.IsString = x.IsString
		ops(x.Iter)
	case *ssa.Panic:
		in.Op = "Panic"
		ops(x.X)
	case *ssa.Phi:
		in.Op = "Phi"
		in.Comment = x.Comment
		ops(x.Edges...)
		for _, p := range x.Block().Preds {
			in.Edges = append(in.Edges, p.Index)
		}
	case *ssa.Range:
		in.Op = "Range"
		ops(x.X)
	case *ssa.Return:
		in.Op = "Return"
		ops(x.Results...)
	case *ssa.RunDefers:
		in.Op = "RunDefers"
	case *ssa.Select:
		in.Op = "Select"
	case *ssa.Send:
		in.Op = "Send"
	case *ssa.Slice:
		in.Op = "Slice"
		ops(x.X, x.Low, x.High, x.Max)
	case *ssa.Store:
		in.Op = "Store"
		ops(x.Addr, x.Val)
	case *ssa.TypeAssert:
		in.Op = "TypeAssert"
		in.CommaOk = x.CommaOk
		in.AssertT = tkey(x.AssertedType)
		ops(x.X)
	default:
		in.Op = fmt.Sprintf("?%T", ins)
	}
	return in
}

func main() {
	dir := flag.String("dir", "/repo", "module directory")
	tags := flag.String("tags", "verif", "build tags")
	out := flag.String("o", "-", "output file")
	extra := flag.String("extra", "", "comma separated extra package path prefixes whose function bodies are exported")
	flag.Parse()

	cfg := &packages.Config{
		Mode:       packages.LoadAllSyntax | packages.NeedModule,
		Dir:        *dir,
		BuildFlags: []string{"-tags=" + *tags},
		Env:        append(os.Environ(), "GOFLAGS=-mod=mod", "GOPROXY=off", "GOSUMDB=off", "GOTOOLCHAIN=local"),
	}
	pkgs, err := packages.Load(cfg, "./...")
	if err != nil {
		fmt.Fprintln(os.Stderr, "load error:", err)
		os.Exit(2)
	}
	nerr := 0
	packages.Visit(pkgs, nil, func(p *packages.Package) {
		for _, e := range p.Errors {
			dump.Errors = append(dump.Errors, e.Error())
			nerr++
		}
	})
	if nerr > 0 {
		for _, e := range dump.Errors {
			fmt.Fprintln(os.Stderr, "package error:", e)
		}
		os.Exit(2)
	}
	var p *ssa.Program
	p, _ = ssautil.AllPackages(pkgs, ssa.InstantiateGenerics|ssa.GlobalDebug)
	prog = p
	prog.Build()

	modPath := ""
	for _, pk := range pkgs {
		if pk.Module != nil && pk.Module.Main {
			modPath = pk.Module.Path
		}
	}
	dump.Module = modPath
	wanted := func(path string) bool {
		if strings.Contains(path, "/internal/parser/antlr") {
			return false
		}
		if path == modPath || strings.HasPrefix(path, modPath+"/") {
			return true
		}
		for _, e := range strings.Split(*extra, ",") {
			if e != "" && strings.HasPrefix(path, e) {
				return true
			}
		}
		return false
	}

	// collect named types of the module (for interface implementers)
	for _, pk := range prog.AllPackages() {
		if pk.Pkg == nil {
			continue
		}
		path := pk.Pkg.Path()
		if !(path == modPath || strings.HasPrefix(path, modPath+"/")) || strings.Contains(path, "/internal/parser/antlr") {
			continue
		}
		for _, m := range pk.Members {
			if t, ok := m.(*ssa.Type); ok {
				if n, ok := types.Unalias(t.Type()).(*types.Named); ok && n.TypeParams().Len() == 0 {
					allNamed = append(allNamed, n)
				}
			}
		}
	}

	all := ssautil.AllFunctions(prog)
	var fns []*ssa.Function
	for f := range all {
		fns = append(fns, f)
	}
	sort.Slice(fns, func(i, j int) bool { return fns[i].String() < fns[j].String() })
	for _, f := range fns {
		path := ""
		if f.Pkg != nil {
			path = f.Pkg.Pkg.Path()
		} else if f.Origin() != nil && f.Origin().Pkg != nil {
			path = f.Origin().Pkg.Pkg.Path()
		} else {
			pp := f
			for pp.Parent() != nil {
				pp = pp.Parent()
			}
			if pp.Pkg != nil {
				path = pp.Pkg.Pkg.Path()
			} else if pp.Origin() != nil && pp.Origin().Pkg != nil {
				path = pp.Origin().Pkg.Pkg.Path()
			}
		}
		if !wanted(path) {
			continue
		}
		if f.TypeParams().Len() > 0 && len(f.TypeArgs()) == 0 {
			continue // uninstantiated generic
		}
		exportFunc(f, modPath)
	}

	// globals and package-level constants of wanted packages
	for _, pk := range prog.AllPackages() {
		if pk.Pkg == nil || !wanted(pk.Pkg.Path()) {
			continue
		}
		for name, m := range pk.Members {
			switch m := m.(type) {
			case *ssa.Global:
				dump.Globals[pk.Pkg.Path()+"."+name] = Global{Name: name, T: tkey(m.Type()), Pkg: pk.Pkg.Path()}
			case *ssa.NamedConst:
				dump.Consts[pk.Pkg.Path()+"."+name] = constOperand(m.Value)
			}
		}
	}

	// method tables for module named types
	for _, n := range allNamed {
		for _, recv := range []types.Type{n, types.NewPointer(n)} {
			ms := prog.MethodSets.MethodSet(recv)
			tab := map[string]string{}
			for i := 0; i < ms.Len(); i++ {
				sel := ms.At(i)
				if fn := prog.MethodValue(sel); fn != nil {
					tab[sel.Obj().Name()] = fullName(fn)
					path := ""
					if fn.Pkg != nil {
						path = fn.Pkg.Pkg.Path()
					}
					if wanted(path) || fn.Synthetic != "" {
						exportFunc(fn, modPath)
					}
				}
			}
			if len(tab) > 0 {
				dump.Methods[tkey(recv)] = tab
			}
		}
	}

	// interface implementers (iterate to a fixpoint since tkey may add types)
	done := map[string]bool{}
	for changed := true; changed; {
		changed = false
		var keys []string
		for k := range dump.Types {
			keys = append(keys, k)
		}
		sort.Strings(keys)
		for _, k := range keys {
			ty := dump.Types[k]
			if done[k] {
				continue
			}
			done[k] = true
			changed = true
			if ty.Kind != "named" && ty.Kind != "interface" {
				continue
			}
		}
	}
	ifaces := map[string]*types.Interface{}
	var collect func(t types.Type)
	seen := map[types.Type]bool{}
	collect = func(t types.Type) {
		t = types.Unalias(t)
		if seen[t] {
			return
		}
		seen[t] = true
		if it, ok := t.Underlying().(*types.Interface); ok {
			ifaces[tkey(t)] = it
		}
	}
	for _, n := range allNamed {
		collect(n)
	}
	// also interface types that appear in the dump by structure are handled by name only
	for k, it := range ifaces {
		ty := dump.Types[k]
		for _, n := range allNamed {
			if _, isI := n.Underlying().(*types.Interface); isI {
				continue
			}
			if types.Implements(n, it) {
				ty.Impls = append(ty.Impls, tkey(n))
			} else if types.Implements(types.NewPointer(n), it) {
				ty.Impls = append(ty.Impls, tkey(types.NewPointer(n)))
			}
		}
		sort.Strings(ty.Impls)
		under := dump.Types[ty.Under]
		if under != nil {
			ty.Sealed = under.Sealed
			ty.Methods = under.Methods
		}
	}

	w := os.Stdout
	if *out != "-" {
		f, err := os.Create(*out)
		if err != nil {
			fmt.Fprintln(os.Stderr, err)
			os.Exit(2)
		}
		defer f.Close()
		w = f
	}
	enc := json.NewEncoder(w)
	if err := enc.Encode(&dump); err != nil {
		fmt.Fprintln(os.Stderr, err)
		os.Exit(2)
	}
}
