"""Loading of the SSA dump produced by engine/ssaexport and CFG analysis
(dominators, natural loops, loop ordinals in source order)."""
import json
import re


class Func:
    def __init__(self, d):
        self.d = d
        self.name = d['name']
        self.pkg = d.get('pkg', '')
        self.short = d['short']
        self.params = d.get('params') or []
        self.freevars = d.get('freevars') or []
        self.results = d.get('results') or []
        self.blocks = d.get('blocks') or []
        self.external = d.get('external', False) or not self.blocks
        self.file = d.get('file', '')
        self.line = d.get('line', 0)
        self.parent = d.get('parent')
        self.origin = d.get('origin')
        self.synthetic = d.get('synthetic')
        self._loops = None
        self._defs = None

    # ---------------------------------------------------------------- CFG
    def succs(self, b):
        return self.blocks[b].get('succs') or []

    def preds(self, b):
        return self.blocks[b].get('preds') or []

    def dominators(self):
        n = len(self.blocks)
        dom = [set(range(n)) for _ in range(n)]
        dom[0] = {0}
        changed = True
        while changed:
            changed = False
            for b in range(1, n):
                ps = self.preds(b)
                if not ps:
                    new = {b}
                else:
                    new = set.intersection(*[dom[p] for p in ps]) | {b}
                if new != dom[b]:
                    dom[b] = new
                    changed = True
        return dom

    def loops(self):
        """Natural loops: dict header -> {'body': set(blocks), 'ord': k, 'line': l, 'latches': [...]}.
        Ordinals are 1-based in source order of the loop header position."""
        if self._loops is not None:
            return self._loops
        dom = self.dominators()
        loops = {}
        for b in range(len(self.blocks)):
            for s in self.succs(b):
                if s in dom[b]:  # back edge b -> s
                    body = loops.setdefault(s, {'body': {s}, 'latches': []})
                    body['latches'].append(b)
                    stack = [b]
                    while stack:
                        x = stack.pop()
                        if x not in body['body']:
                            body['body'].add(x)
                            stack.extend(self.preds(x))
        # source order: by min line of any instruction in header / first body block
        def hdr_line(h):
            ls = []
            for bb in sorted(loops[h]['body']):
                for ins in self.blocks[bb]['instrs']:
                    if ins.get('line'):
                        ls.append(ins['line'])
            return min(ls) if ls else 0
        # use the minimal line over the whole loop body: the `for` statement comes first
        order = sorted(loops.keys(), key=lambda h: (hdr_line(h), h))
        for k, h in enumerate(order):
            loops[h]['ord'] = k + 1
            loops[h]['line'] = hdr_line(h)
        self._loops = loops
        return loops

    def idoms(self):
        """immediate dominator of each block (None for the entry)"""
        if getattr(self, '_idom', None) is None:
            dom = self.dominators()
            idom = {}
            for b in range(len(self.blocks)):
                strict = dom[b] - {b}
                best = None
                for d in strict:
                    # the immediate dominator is the strict dominator dominated by all other strict dominators
                    if all(o in dom[d] for o in strict):
                        best = d
                idom[b] = best
            self._idom = idom
        return self._idom

    def reaching_ref(self, name, b, i):
        """most recent reference to source variable `name` before instruction i of block b
        (DebugRef or a phi commented with the name), walking up the dominator tree"""
        idom = self.idoms()
        first = True
        seen = set()
        while b is not None and b not in seen:
            seen.add(b)
            instrs = self.blocks[b]['instrs']
            start = (i - 1) if first else len(instrs) - 1
            for j in range(min(start, len(instrs) - 1), -1, -1):
                ins = instrs[j]
                if ins['op'] == 'DebugRef' and ins.get('ident') == name:
                    return ins['args'][0], ins.get('isaddr', False)
                if ins['op'] == 'Phi' and ins.get('comment') == name:
                    return {'k': 'reg', 'n': ins['reg'], 't': ins['t']}, False
            first = False
            b = idom.get(b)
        return None

    def cells(self):
        """source variable name -> Alloc instructions of its cell(s)"""
        if getattr(self, '_cells', None) is None:
            self._cells = {}
            for b in self.blocks:
                for ins in b['instrs']:
                    if ins['op'] == 'Alloc' and ins.get('comment'):
                        self._cells.setdefault(ins['comment'], []).append(ins)
        return self._cells

    def defs(self):
        """register -> (block, index, instr)"""
        if self._defs is None:
            self._defs = {}
            for b in self.blocks:
                for i, ins in enumerate(b['instrs']):
                    if ins.get('reg'):
                        self._defs[ins['reg']] = (b['idx'], i, ins)
        return self._defs

    def names(self):
        """source identifier -> list of (operand, isaddr, block)"""
        out = {}
        for b in self.blocks:
            for ins in b['instrs']:
                if ins['op'] == 'DebugRef' and ins.get('ident'):
                    a = ins['args'][0]
                    key = (a['k'], a.get('n'))
                    lst = out.setdefault(ins['ident'], [])
                    if all(k != key for (k, _, _, _) in lst):
                        lst.append((key, a, ins.get('isaddr', False), b['idx']))
                if ins['op'] == 'Phi' and ins.get('comment'):
                    a = {'k': 'reg', 'n': ins['reg'], 't': ins['t']}
                    lst = out.setdefault(ins['comment'], [])
                    key = ('reg', ins['reg'])
                    if all(k != key for (k, _, _, _) in lst):
                        lst.append((key, a, False, b['idx']))
        return out


class Program:
    def __init__(self, path):
        with open(path) as f:
            d = json.load(f)
        self.module = d['module']
        self.types = d['types']
        self.funcs = {n: Func(fd) for n, fd in d['funcs'].items()}
        self.globals = d.get('globals') or {}
        self.consts = d.get('consts') or {}
        self.methods = d.get('methods') or {}
        self.short_index = {}
        for n in self.funcs:
            self.short_index.setdefault(self.shorten(n), []).append(n)

    def shorten(self, full):
        """(*github.com/formancehq/numscript/internal/interpreter.programState).pushSender
           -> (*interpreter.programState).pushSender ; pkg path -> last element"""
        return re.sub(r'[A-Za-z0-9_.\-]+(?:/[A-Za-z0-9_.\-]+)*/([A-Za-z0-9_\-]+)\.', r'\1.', full)

    def find(self, short):
        c = self.short_index.get(short)
        if not c:
            return None
        if len(c) > 1:
            raise KeyError('ambiguous function name %s: %s' % (short, c))
        return self.funcs[c[0]]

    # ---------------------------------------------------------------- types
    def T(self, k):
        return self.types[k]

    def under(self, k):
        t = self.types[k]
        while t['kind'] == 'named':
            k = t['under']
            t = self.types[k]
        return k

    def kind(self, k):
        return self.types[self.under(k)]['kind']
