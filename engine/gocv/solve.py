"""Discharging obligations with z3 (API, 5.1) and optionally confirming with the
other installed solvers through SMT-LIB text."""
import os
import subprocess
import tempfile
import time
import z3

from .exec import has_quant


def make_solver(timeout_ms, seed=0):
    s = z3.Solver()
    s.set('timeout', timeout_ms)
    s.set('random_seed', seed)
    return s


def discharge(ex, o, timeout_ms=10000, seed=0, want_model=True, ground=True):
    """sets o.status in {'proved','failed','unknown'}; 'failed' carries a model of the negation"""
    if o.status == 'proved':
        return
    t0 = time.time()
    axioms = ex.m.string_axioms() + list(ex.axioms)
    if ex.uses_psum:
        # relevance filter (sound: it only drops hypotheses): a goal that does not mention the sum
        # functions is first tried without the facts and lemmas about sums
        if not mentions(o.goal, ('psum', 'rpsum')):
            s0 = make_solver(timeout_ms, seed)
            for a in axioms:
                if not mentions(a, ('psum', 'rpsum')):
                    s0.add(a)
            for p in o.pc:
                if not mentions(p, ('psum', 'rpsum')):
                    s0.add(p)
            s0.add(z3.Not(o.goal))
            if s0.check() == z3.unsat:
                o.status = 'proved'
                o.solver = 'z3-5.1(api)'
                o.time = time.time() - t0
                return
        from . import specfuns
        axioms = axioms + specfuns.psum_axioms(ex.spec)
    s = make_solver(timeout_ms, seed)
    for a in axioms:
        s.add(a)
    for p in o.pc:
        s.add(p)
    s.add(z3.Not(o.goal))
    r = s.check()
    o.solver = 'z3-5.1(api)'
    if r == z3.unsat:
        o.status = 'proved'
    elif r == z3.sat:
        o.status = 'failed'
        if want_model:
            o.model = extract_model(ex, s.model())
    else:
        # unknown: try the ground (quantifier-free) part for a candidate counterexample
        o.status = 'unknown'
        o.note = (o.note + ' ' if o.note else '') + 'solver: ' + s.reason_unknown()
        if not ground:
            o.time = time.time() - t0
            return
        if not has_quant(o.goal) and case_split(ex, o, axioms, [], timeout_ms, seed, 3, time.time() + max(20.0, 3 * timeout_ms / 1000.0)):
            o.status = 'proved'
            o.solver = 'z3-5.1(api,case-split)'
            o.time = time.time() - t0
            return
        s2 = make_solver(min(timeout_ms, 3000), seed)
        for a in axioms:
            s2.add(a)
        for p in o.pc:
            if not has_quant(p):
                s2.add(p)
        if not has_quant(o.goal):
            s2.add(z3.Not(o.goal))
            r2 = s2.check()
            if r2 == z3.sat:
                o.status = 'failed'
                o.note += ' (candidate from the quantifier-free part)'
                if want_model:
                    o.model = extract_model(ex, s2.model())
            elif r2 == z3.unsat:
                o.status = 'proved'
                o.solver = 'z3-5.1(api,ground)'
    o.time = time.time() - t0


def _testers(goal):
    """ground datatype tester applications is_C(t) of the goal, grouped by t"""
    groups = {}
    seen = set()
    stack = [goal]
    while stack:
        x = stack.pop()
        i = x.get_id()
        if i in seen:
            continue
        seen.add(i)
        if z3.is_quantifier(x):
            continue   # terms under a binder may mention bound variables
        if z3.is_app(x):
            if x.decl().kind() == z3.Z3_OP_DT_IS and x.num_args() == 1:
                g = groups.setdefault(x.arg(0).get_id(), (x.arg(0), {}))
                g[1][x.decl().name() + str(x.decl().params())] = x
            stack.extend(x.children())
    return groups


def case_split(ex, o, axioms, extra, timeout_ms, seed, depth, deadline, used=()):
    """prove the goal by cases on the constructor of an interface value the goal inspects (sound: the cases
    is_C1(t), ..., is_Cn(t), none-of-them are exhaustive); returns True when every case is unsat"""
    groups = {k: v for k, v in _testers(o.goal).items() if k not in used}
    if not groups:
        return False
    key = max(groups, key=lambda k: (len(groups[k][1]), -k))
    t, tests = groups[key]
    if len(tests) < 2:
        return False
    cases = list(tests.values()) + [z3.And(*[z3.Not(c) for c in tests.values()])]
    for c in cases:
        if time.time() > deadline:
            return False
        s = make_solver(min(timeout_ms, 6000), seed)
        for a in axioms:
            s.add(a)
        for p in o.pc:
            s.add(p)
        for e in extra:
            s.add(e)
        s.add(c)
        s.add(z3.Not(o.goal))
        r = s.check()
        if r == z3.unsat:
            continue
        if r == z3.sat or depth <= 1:
            return False
        if not case_split(ex, o, axioms, list(extra) + [c], timeout_ms, seed, depth - 1, deadline, tuple(used) + (key,)):
            return False
    return True


def extract_model(ex, model):
    """values of the verified function's inputs and of big-number cells reachable from them"""
    out = {}
    try:
        for name, v in (ex.inputs or {}).items():
            vals = []
            for leaf in v.leaves:
                vals.append(str(model.eval(leaf, model_completion=True)))
            out[name] = vals
        hi = ex._base.get('H|bigint||Int')
        if hi is not None:
            for name, v in (ex.inputs or {}).items():
                if ex.m.kind(v.t) == 'pointer' and ex.m.is_bigint(ex.m.elem(v.t)):
                    out['val(%s)' % name] = str(model.eval(z3.Select(hi, v.leaves[0]), model_completion=True))
        out['_decls'] = {}
        n = 0
        for d in model.decls():
            if d.arity() == 0 and n < 60:
                nm = d.name()
                if nm.startswith('in_') or nm.startswith('r_') or nm.startswith('x_'):
                    out['_decls'][nm] = str(model[d])
                    n += 1
    except Exception as e:  # model extraction is best effort
        out['_error'] = repr(e)
    return out


def to_smt2(ex, o):
    s = z3.Solver()
    for a in ex.m.string_axioms() + list(ex.axioms):
        s.add(a)
    if ex.uses_psum:
        from . import specfuns
        for a in specfuns.psum_axioms(ex.spec):
            s.add(a)
    for p in o.pc:
        s.add(p)
    s.add(z3.Not(o.goal))
    return s.to_smt2()


def confirm_external(smt2, timeout_s=20):
    """run the other installed solvers on the SMT-LIB text; returns dict solver -> answer"""
    res = {}
    with tempfile.NamedTemporaryFile('w', suffix='.smt2', delete=False) as f:
        f.write(smt2)
        path = f.name
    try:
        for name, cmd in (('z3-4.8.12', ['z3', '-T:%d' % timeout_s, path]),
                          ('cvc5-1.0', ['cvc5', '--tlimit=%d' % (timeout_s * 1000), path])):
            try:
                p = subprocess.run(cmd, capture_output=True, text=True, timeout=timeout_s + 5)
                line = (p.stdout.strip().splitlines() or ['?'])[0]
                res[name] = line
            except Exception as e:
                res[name] = 'error: ' + repr(e)[:80]
    finally:
        os.unlink(path)
    return res


def cover_check(ex, pc):
    """is the entry condition (requires + type invariants) satisfiable?  'sat' / 'unsat' / 'unknown'"""
    s = make_solver(3000)
    for a in ex.m.string_axioms():
        s.add(a)
    for p in pc:
        if not has_quant(p):
            s.add(p)
    r = s.check()
    return str(r)


def discharge_all(ex, obls, timeout_ms=10000, seed=0, budget_s=None, max_confirmed=3):
    """first a quick pass (2 s per obligation, no refutation search); then EVERY obligation that is still open is tried
    again with the full timeout and further seeds (a timeout is never taken for a refutation: nonlinear goals are
    sensitive to the seed).  Retrying stops only once `max_confirmed` obligations have failed for good: then the check
    has failed anyway and the remaining open obligations are reported as not retried."""
    quick = min(2000, timeout_ms)
    pending = []
    for o in obls:
        discharge(ex, o, quick, seed, want_model=False, ground=False)
        if o.status != 'proved':
            pending.append(o)
    confirmed = 0
    attempts = [(max(timeout_ms // 2, quick), seed + 1, True), (timeout_ms, seed + 17, True), (timeout_ms, seed + 101, False),
                (timeout_ms * 2, seed + 977, False)]
    for o in pending:
        if confirmed >= max_confirmed:
            o.note = (o.note or '') + ' (not retried: the check had already failed on %d other obligations)' % confirmed
            continue
        for (tmo, sd, ground) in attempts:
            spent = o.time
            o.status = None
            discharge(ex, o, tmo, sd, want_model=True, ground=ground)
            o.time += spent
            if o.status == 'proved':
                break
            if o.status == 'failed' and 'candidate from the quantifier-free part' not in (o.note or ''):
                break   # a genuine model of the negation
        if o.status != 'proved':
            confirmed += 1
    return pending


_MENT = {}
_MENT_KEEP = []


def mentions(t, names):
    """does term t apply one of the named uninterpreted functions (cached)"""
    key = (t.get_id(), names)
    r = _MENT.get(key)
    if r is not None:
        return r
    seen = set()
    stack = [t]
    res = False
    while stack:
        x = stack.pop()
        i = x.get_id()
        if i in seen:
            continue
        seen.add(i)
        if z3.is_quantifier(x):
            stack.append(x.body())
            continue
        if z3.is_app(x):
            if x.decl().kind() == z3.Z3_OP_UNINTERPRETED and x.decl().name() in names:
                res = True
                break
            stack.extend(x.children())
    _MENT[key] = res
    _MENT_KEEP.append(t)
    return res
