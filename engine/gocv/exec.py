"""Symbolic execution of go/ssa functions into verification conditions.

One path at a time; loops are cut at their headers by invariants; calls are
replaced by the callee's contract (or inlined when the callee has none / is
marked inline); every potential panic site yields a safety obligation."""
import re
import z3

from .model import forall, add0, Model, Val, Ptr, Closure, Unsupported
from . import lib
from .speceval import SpecEval


class Obligation:
    __slots__ = ('name', 'kind', 'goal', 'pc', 'props', 'line', 'fn', 'note', 'status', 'time', 'solver', 'model', 'inputs')

    def __init__(self, name, kind, goal, pc, props, line, fn, note=''):
        self.name = name
        self.kind = kind
        self.goal = goal
        self.pc = pc
        self.props = props
        self.line = line
        self.fn = fn
        self.note = note
        self.status = None
        self.time = 0.0
        self.solver = None
        self.model = None
        self.inputs = None


class PathLimit(Exception):
    pass


class PredLoc:
    """a set of locations of one heap given by a predicate over refs (set-valued modifies item)"""
    def __init__(self, holds, key):
        self.holds = holds
        self.key = key


class St:
    __slots__ = ('heaps', 'alloc', 'pc', 'ex', 'gen', 'psums', 'recent_idx', 'iters', 'last_print')

    def __init__(self, ex):
        self.ex = ex
        self.heaps = {}
        self.alloc = None
        self.pc = []
        self.gen = 0
        self.psums = {}
        self.recent_idx = ()
        self.iters = {}
        self.last_print = None

    def fork(self):
        s = St(self.ex)
        s.heaps = dict(self.heaps)
        s.alloc = self.alloc
        s.pc = list(self.pc)
        s.gen = self.gen
        s.psums = {k: list(v) for k, v in self.psums.items()}
        s.recent_idx = self.recent_idx
        s.iters = dict(self.iters)
        s.last_print = self.last_print
        return s

    def assume(self, t):
        if z3.is_true(t):
            return
        self.pc.append(t)

    def heap(self, name):
        h = self.heaps.get(name)
        if h is None:
            h = self.ex.base_heap(name, self.gen)
            self.heaps[name] = h
        return h


class Frame:
    __slots__ = ('fn', 'regs', 'params', 'fvs', 'depth', 'contract', 'entry', 'results', 'top', 'loopstack', 'site_counters', 'unroll')

    def __init__(self, fn):
        self.fn = fn
        self.regs = {}
        self.params = {}
        self.fvs = {}
        self.depth = 0
        self.contract = None
        self.entry = None
        self.top = False
        self.loopstack = ()
        self.unroll = ()

    def copy(self):
        f = Frame(self.fn)
        f.regs = dict(self.regs)
        f.params = self.params
        f.fvs = self.fvs
        f.depth = self.depth
        f.contract = self.contract
        f.entry = self.entry
        f.top = self.top
        f.loopstack = self.loopstack
        f.unroll = self.unroll
        return f


INT_RANGES = {
    'int': (-(1 << 63), (1 << 63) - 1), 'int64': (-(1 << 63), (1 << 63) - 1),
    'int32': (-(1 << 31), (1 << 31) - 1), 'int16': (-(1 << 15), (1 << 15) - 1), 'int8': (-128, 127),
    'uint': (0, (1 << 64) - 1), 'uint64': (0, (1 << 64) - 1), 'uint32': (0, (1 << 32) - 1),
    'uint16': (0, (1 << 16) - 1), 'uint8': (0, 255), 'byte': (0, 255), 'uintptr': (0, (1 << 64) - 1),
    'rune': (-(1 << 31), (1 << 31) - 1),
}


class Executor:
    def __init__(self, prog, contracts, opts=None):
        self.prog = prog
        self.m = Model(prog)
        self.db = contracts
        self.opts = opts or {}
        self.max_paths = self.opts.get('max_paths', 4000)
        self.max_inline = self.opts.get('max_inline', 12)
        self.arith_overflow = self.opts.get('overflow', False)
        self.spec = SpecEval(self)
        self.m.regex_hook = self.regex_const_axioms
        self._wcache = {}
        self._mcache = {}
        self.reset()

    def reset(self):
        self.obls = []
        self.npaths = 0
        self._base = {}
        self.site = {}
        self.trusted = set()
        self.notes = []
        self.axioms = []
        self.cover = {}
        self.prune_solver = z3.Solver()
        self.prune_solver.set('timeout', 300)
        self.prune_depth = 0
        self.unfold_done = set()
        self.regex_used = {}
        self.iter_counter = 0
        self.view_versions = {}
        self.fresh_ids = set()
        self.fresh_keep = []
        self.code_ids = {}
        self.gen_counter = 0
        self.gen_alloc = {}
        self.pending_ref_axioms = []
        self.uses_psum = False
        self.events = []
        self.inline_stack = []
        self.closure_cells = {}

    # ------------------------------------------------------------------ heaps
    def base_heap(self, name, gen=0):
        key = name if gen == 0 else (name, gen)
        if key not in self._base:
            h = z3.Const('%s@%s' % (name, gen), self.m.heap_sort(name))
            self._base[key] = h
            own = False
            if not self.heap_is_ref(name) and self.heap_iface_impls(name):
                # heaps of interface values: typed only where the verified function itself (transitively) writes them
                try:
                    own = name in self.fn_writes(self.topframe.fn)
                except Exception:
                    own = False
            if self.heap_is_ref(name) or own:
                bound = self.entry_alloc if gen == 0 else self.gen_alloc.get(gen, self.entry_alloc)
                ax = self.ref_axiom(name, h, bound)
                if ax is not None:
                    self.axioms.append(ax)
        return self._base[key]

    def heap_is_ref(self, name):
        """does this heap store references (pointer / map / slice backing array ids)?"""
        r = self._isref.get(name)
        if r is not None:
            return r
        parts = name.split('|')
        res = False
        try:
            if parts[3] == 'Int':
                if parts[0] in ('H', 'A'):
                    T, path = parts[1], parts[2]
                elif parts[0] == 'MV':
                    T, path = self.m.types[parts[1]]['elem'], parts[2]
                else:
                    T = None
                if T is not None and T not in ('bigint', 'bigrat'):
                    T = self.m.uncanon(T)
                    for (p, srt, tk) in self.m.layout(T):
                        if p == path and srt == 'Int':
                            k = self.m.kind(tk)
                            res = k in ('pointer', 'map') or (k == 'slice' and p.endswith('#arr'))
        except Exception:
            res = False
        self._isref[name] = res
        return res

    _isref = {}

    def heap_iface_impls(self, name):
        """for a heap of interface values of a module interface: the pointer types that may be stored in it"""
        r = self._isiface.get(name)
        if r is not None:
            return r
        parts = name.split('|')
        res = []
        try:
            if parts[3] == 'Any' and parts[0] in ('H', 'A'):
                T = self.m.uncanon(parts[1])
                for (p, srt, tk) in self.m.layout(T):
                    if p == parts[2] and srt == 'Any' and self.m.kind(tk) == 'interface':
                        t = self.m.types.get(tk) or {}
                        impls = t.get('impls') or (self.m.types.get(self.m.under(tk)) or {}).get('impls') or []
                        res = [c for c in impls if c in self.m.any_index and self.m.kind(c) == 'pointer']
                        sealed = t.get('sealed') or (self.m.types.get(self.m.under(tk)) or {}).get('sealed')
                        if sealed and all(c in self.m.any_index for c in impls):
                            # an interface with an unexported method: only the implementers of its package exist
                            self._sealed_impls[name] = list(impls)
        except Exception:
            res = []
        self._isiface[name] = res
        return res

    _sealed_impls = {}

    _isiface = {}

    def ref_axiom(self, name, heap, bound):
        """well-typedness of a heap of references: every stored ref denotes an object allocated before `bound`"""
        srt = heap.sort()
        r = z3.Int('r!wt')
        impls = self.heap_iface_impls(name)
        if impls:
            if name.startswith('H|'):
                v = z3.Select(heap, r)
                bvs = [r]
            else:
                i = z3.Int('i!wt')
                v = z3.Select(z3.Select(heap, r), i)
                bvs = [r, i]
            body = []
            for c in impls:
                pr = self.m.any_get(c, v)[0]
                body.append(z3.Implies(self.m.any_is(c, v), z3.And(pr >= 0, pr < bound)))
            if name in self._sealed_impls:
                body.append(z3.Or(v == self.m.Any.nil, *[self.m.any_is(c, v) for c in self._sealed_impls[name]]))
            return forall(bvs, z3.And(*body), patterns=[v])
        if name.startswith('H|'):
            v = z3.Select(heap, r)
            return forall([r], z3.And(v >= 0, v < bound), patterns=[v])
        if name.startswith('A|'):
            i = z3.Int('i!wt')
            v = z3.Select(z3.Select(heap, r), i)
            return forall([r, i], z3.And(v >= 0, v < bound), patterns=[v])
        if name.startswith('MV|'):
            k = z3.Const('k!wt', srt.range().domain())
            v = z3.Select(z3.Select(heap, r), k)
            return forall([r, k], z3.And(v >= 0, v < bound), patterns=[v])
        return None

    def flush_ref_axioms(self, st):
        for (name, h) in self.pending_ref_axioms:
            ax = self.ref_axiom(name, h, st.alloc)
            if ax is not None:
                st.assume(ax)
        self.pending_ref_axioms = []

    def havoc_everything(self, st, tag):
        """conservative: an imprecise write set; every heap known so far and every heap touched later is fresh"""
        self.gen_counter += 1
        st.gen = self.gen_counter
        na = self.m.fresh('alloc_h', self.m.Int)
        st.assume(na >= st.alloc)
        st.alloc = na
        self.gen_alloc[st.gen] = na
        for name in list(st.heaps.keys()):
            st.heaps[name] = self.m.fresh(name.replace('|', '_')[:50] + '_' + tag, self.m.heap_sort(name))
        self.notes.append('conservative havoc of all heaps at %s (imprecise write set)' % tag)

    def hname(self, T, path, sort):
        return 'H|%s|%s|%s' % (self.m.canon(T), path, sort)

    def aname(self, E, path, sort):
        return 'A|%s|%s|%s' % (self.m.canon(E), path, sort)

    def contract_of(self, fn):
        short = self.prog.shorten(fn.name)
        # strip the package qualifier: "(*interpreter.programState).pushSender" -> "(*programState).pushSender"
        pk = fn.pkg.rsplit('/', 1)[-1] if fn.pkg else ''
        key = short.replace(pk + '.', '', 1) if pk else short
        c = self.db.get(fn.pkg, key)
        return c

    def short(self, fn):
        return self.prog.shorten(fn.name)

    # ------------------------------------------------------------------ obligations
    def oblige(self, st, frame, kind, label, goal, props=(), line=0, note=''):
        top = self.topframe
        name = '%s#%s:%s' % (self.short(top.fn), kind, label)
        if z3.is_true(goal):
            # trivially true: still counted (discharged syntactically)
            o = Obligation(name, kind, goal, [], tuple(props), line, self.short(top.fn), note)
            o.status = 'proved'
            o.solver = 'syntactic'
            self.obls.append(o)
            return
        o = Obligation(name, kind, goal, list(st.pc), tuple(props), line, self.short(top.fn), note)
        self.obls.append(o)

    def site_label(self, frame, kind, ins):
        """stable label for the n-th site of `kind` in function (by function and instruction position)"""
        key = (frame.fn.name, kind)
        tab = self.site.setdefault(key, {})
        pos = (ins.get('_b', 0), ins.get('_i', 0))
        if pos not in tab:
            tab[pos] = len(tab) + 1
        if frame.top:
            return '%s@%d' % (kind, tab[pos])
        return '%s@%s.%d' % (kind, self.short(frame.fn), tab[pos])

    def safety(self, st, frame, kind, ins, cond, note=''):
        """cond must hold, otherwise the instruction panics"""
        if not self.safety_on:
            st.assume(cond)
            return
        self.oblige(st, frame, 'safe', self.site_label(frame, kind, ins), cond, self.safety_props, ins.get('line', 0), note)
        st.assume(cond)

    # ------------------------------------------------------------------ memory access
    def alloc_ref(self, st):
        r = st.alloc
        st.alloc = st.alloc + 1
        self.fresh_ids.add(r.get_id())
        self.fresh_keep.append(r)
        return r

    def ptr_of(self, v):
        """fat pointer of a pointer-typed Val"""
        if v.ptr is not None:
            return v.ptr
        T = self.m.elem(v.t)
        return Ptr('obj', T, '', v.leaves[0])

    def scalar_ptr(self, st, p, t):
        """Int ref of a fat pointer, if it denotes a whole object"""
        if p.kind == 'obj' and p.path == '':
            return p.ref
        return None

    def load(self, st, p, T=None):
        """read the value of type T (default: pointee type) at pointer p"""
        T = T or self.pointee_type(p)
        out = []
        for (path, sort, tk) in self.m.layout(T):
            out.append(self.rd_leaf(st, p, path, sort))
        v = Val(T, out)
        self.assume_refs(st, v)
        return v

    def pointee_type(self, p):
        T = p.T
        if p.path == '':
            return T
        # walk path
        cur = T
        for comp in [c for c in p.path.split('.') if c]:
            idx = self.m.field_index(cur, comp)
            if idx is None:
                raise Unsupported('bad pointer path %s in %s' % (p.path, T))
            cur = self.m.types[self.m.under(cur)]['fields'][idx]['t']
        return cur

    def leafpath(self, base, path):
        if not base:
            return path
        if not path:
            return base.rstrip('.')
        if path.startswith('#'):
            return base.rstrip('.') + path
        return base + path

    def rd_leaf(self, st, p, path, sort):
        lp = self.leafpath(p.path, path)
        if p.kind == 'obj':
            return z3.Select(st.heap(self.hname(p.T, lp, sort)), p.ref)
        else:
            return z3.Select(z3.Select(st.heap(self.aname(p.T, lp, sort)), p.ref), p.idx)

    def store(self, st, frame, p, v, T=None):
        T = T or self.pointee_type(p)
        lay = self.m.layout(T)
        if len(lay) != len(v.leaves):
            raise Unsupported('store layout mismatch %s vs %s' % (T, v.t))
        for (path, sort, tk), leaf in zip(lay, v.leaves):
            self.wr_leaf(st, frame, p, path, sort, leaf)

    def wr_leaf(self, st, frame, p, path, sort, leaf):
        lp = self.leafpath(p.path, path)
        if p.kind == 'obj':
            name = self.hname(p.T, lp, sort)
            self.frame_check(st, frame, name, p.ref)
            st.heaps[name] = z3.Store(st.heap(name), p.ref, leaf)
        else:
            name = self.aname(p.T, lp, sort)
            self.frame_check(st, frame, name, p.ref)
            h = st.heap(name)
            st.heaps[name] = z3.Store(h, p.ref, z3.Store(z3.Select(h, p.ref), p.idx, leaf))
        self.written.add(name)

    def frame_check(self, st, frame, name, ref):
        """a write to (heap name, ref) must be allowed by the verified function's modifies clause"""
        top = self.topframe
        if self.modset is None:
            return
        if name in self.fresh_only_ok:
            pass
        if ref.get_id() in self.fresh_ids:
            return
        alts = [ref >= self.entry_alloc]
        if name.startswith('A|'):
            alts.append(ref == 0)   # the nil slice has no elements: nothing is written
        for (n, r) in self.modset:
            if n == name or n == '*':
                if r is None:
                    return
                if isinstance(r, PredLoc):
                    alts.append(r.holds(ref))
                else:
                    alts.append(ref == r)
        goal = z3.simplify(z3.Or(*alts))
        if z3.is_true(goal):
            return
        parts = name.split('|')
        self.oblige(st, frame, 'frame', parts[1][-40:] + '.' + (parts[2] if len(parts) > 2 else parts[0]), goal, self.frame_props, 0,
                    'write outside the modifies clause')

    def assume_refs(self, st, v):
        """refs read from memory or received as inputs denote allocated objects"""
        lay = self.m.layout(v.t)
        for idx, (path, sort, tk) in enumerate(lay):
            if path.endswith('#off'):
                v.leaves[idx] = z3.IntVal(0)   # representation invariant: slices start at index 0 of their array object
        for idx, ((path, sort, tk), leaf) in enumerate(zip(lay, v.leaves)):
            if sort == 'Int' and path.endswith('#arr') and self.m.kind(tk) == 'slice' and idx + 2 < len(lay):
                st.assume(z3.Implies(leaf == 0, v.leaves[idx + 2] == 0))
        for (path, sort, tk), leaf in zip(self.m.layout(v.t), v.leaves):
            if sort == 'Int':
                k = self.m.kind(tk)
                if k in ('pointer', 'map') or (k == 'slice' and path.endswith('#arr')):
                    st.assume(z3.And(leaf >= 0, leaf < st.alloc))
                elif k == 'slice' and (path.endswith('#len') or path.endswith('#off')):
                    st.assume(leaf >= 0)

    def new_object(self, st, frame, T, init=None):
        """allocate an object of type T, zero (or init) initialised; returns ref"""
        r = self.alloc_ref(st)
        v = init or self.m.zero_val(T)
        for (path, sort, tk), leaf in zip(self.m.layout(T), v.leaves):
            name = self.hname(T, path, sort)
            st.heaps[name] = z3.Store(st.heap(name), r, leaf)
            self.written.add(name)
        return r

    # ------------------------------------------------------------------ values
    def const_val(self, op):
        t = op['t']
        if op['k'] == 'nil':
            return self.m.zero_val(t)
        v = op.get('v')
        lay = self.m.layout(t)
        if len(lay) != 1:
            raise Unsupported('constant of type ' + t)
        sort = lay[0][1]
        if sort == 'Bool':
            return Val(t, [z3.BoolVal(bool(v))])
        if sort == 'Str':
            return Val(t, [self.m.strconst(v)])
        if sort == 'Int':
            return Val(t, [z3.IntVal(int(v))])
        if sort == 'Real':
            return Val(t, [z3.RealVal(v)])
        if sort == 'Any':
            return Val(t, [self.m.Any.nil])
        raise Unsupported('constant sort ' + sort)

    def operand(self, st, frame, op):
        k = op['k']
        if k == 'reg':
            if op['n'] not in frame.regs:
                raise Unsupported('use of undefined register %s in %s' % (op['n'], frame.fn.name))
            return frame.regs[op['n']]
        if k == 'param':
            return frame.params[op['n']]
        if k == 'fv':
            return frame.fvs[op['n']]
        if k in ('const', 'nil'):
            return self.const_val(op)
        if k == 'global':
            # a global variable is an object: pointer to it
            gname = op['n']
            T = self.m.elem(op['t'])
            ref = self.global_ref(gname)
            st.assume(z3.And(ref > 0, ref < self.entry_alloc))   # package-level variables exist before any call
            return Val(op['t'], [ref], ptr=Ptr('obj', T, '', ref))
        if k == 'func':
            return Val(op['t'], [z3.IntVal(self.func_id(op['n']))], py=('func', op['n']))
        if k == 'builtin':
            return Val(op['t'], [z3.IntVal(0)], py=('builtin', op['n']))
        raise Unsupported('operand kind ' + k)

    def global_ref(self, name):
        if name not in self.globals_ref:
            # globals live at fixed negative-free small refs below entry alloc: distinct constants
            self.globals_ref[name] = z3.Const('glob_' + name.rsplit('/', 1)[-1].replace('.', '_'), self.m.Int)
        return self.globals_ref[name]

    def truth(self, v):
        return v.leaves[0]

    # ------------------------------------------------------------------ verification of one function
    def verify(self, fn, props=None, safety_props=(), want_safety=True):
        """Generate all obligations of fn against its contract. Returns list of Obligation."""
        self.reset()
        self.globals_ref = {}
        self.written = set()
        self.safety_on = want_safety
        self.safety_props = tuple(safety_props)
        self.frame_props = ()
        contract = self.contract_of(fn)
        self.unroll_bound = contract.unroll if contract is not None else None
        frame = Frame(fn)
        frame.top = True
        frame.contract = contract
        self.topframe = frame
        st = St(self)
        st.alloc = z3.Const('alloc@0', self.m.Int)
        st.assume(st.alloc >= 1)
        self.entry_alloc = st.alloc
        self.modset = None
        self.external_bound = None
        self.fresh_only_ok = set()
        # parameters
        for p in fn.params:
            v = self.m.fresh_val(p['t'], 'p_' + p['n'])
            v = Val(p['t'], [z3.Const('in_%s%s' % (p['n'], ('_%d' % i) if i else ''), l.sort()) for i, l in enumerate(v.leaves)])
            frame.params[p['n']] = v
            self.assume_refs(st, v)
            self.type_invariant(st, v)
            if self.m.kind(p['t']) == 'interface':
                t = self.m.types.get(p['t']) or {}
                impls = t.get('impls') or (self.m.types.get(self.m.under(p['t'])) or {}).get('impls') or []
                for c in impls:
                    if c in self.m.any_index:
                        self.assume_payload_refs(st, c, v.leaves[0])
        for p in fn.freevars:
            v = Val(p['t'], [z3.Const('fv_%s%s' % (p['n'], ('_%d' % i) if i else ''), l.sort()) for i, l in enumerate(self.m.fresh_val(p['t']).leaves)])
            frame.fvs[p['n']] = v
            self.assume_refs(st, v)
        self.inputs = dict(frame.params)
        entry = st.fork()
        frame.entry = entry
        self.entry_state = entry
        if contract is not None:
            self.frame_props = tuple(sorted(contract.props))
            env = self.spec.env_for(frame, st, st, None)
            for c in contract.lets:
                env.vars[c.label] = self.spec.eval(c.ast, env)
            self.top_lets = dict(env.vars)
            for c in contract.requires:
                t = self.spec.eval_bool(c.ast, env)
                st.assume(t)
            if contract.modifies is not None:
                self.modset = []
                for c in contract.modifies:
                    self.modset.extend(self.spec.lvalue_locs(c.ast, env))
            if contract.external_below is not None:
                self.external_bound = self.spec.eval_term(contract.external_below.ast, env)
        else:
            self.top_lets = {}
        # assumed axioms of the package (T3 facts about the ANTLR recogniser, ...)
        if self.db.axioms:
            aenv = self.spec.env_for(frame, st, st, None)
            for cl in self.db.axioms:
                if getattr(cl, 'pkg', None) not in (None, fn.pkg):
                    continue
                st.assume(self.spec.eval_bool(cl.ast, aenv))
                self.trusted.add('assumed axiom [%s]: %s' % (cl.label, cl.text[:100]))
        frame.entry = st.fork()
        self.entry_state = frame.entry
        self.cover['entry'] = list(st.pc)
        try:
            self.run(frame, 0, 0, None, st, self.top_return)
        except PathLimit:
            self.notes.append('path limit reached')
            raise
        return self.obls

    def type_invariant(self, st, v):
        """ranges of machine integers and non-negativity of lengths for inputs"""
        for (path, sort, tk), leaf in zip(self.m.layout(v.t), v.leaves):
            if sort == 'Int':
                u = self.m.types[self.m.under(tk)]
                if u['kind'] == 'basic' and u['name'] in INT_RANGES:
                    lo, hi = INT_RANGES[u['name']]
                    st.assume(z3.And(leaf >= lo, leaf <= hi))

    def top_return(self, st, frame, results, ins):
        """at a return of the verified function: check ensures"""
        self.npaths += 1
        self.cover.setdefault('returns', []).append(list(st.pc))
        c = frame.contract
        if c is None:
            return
        env = self.spec.env_for(frame, st, frame.entry, results)
        env.vars.update({k: v for k, v in self.top_lets.items() if k not in env.vars})
        if ins is not None and '_b' in ins:
            env.point = (ins['_b'], ins['_i'])
        for cl in c.ensures:
            for lbl, t in self.spec.eval_conjuncts(cl, env):
                self.oblige(st, frame, 'ensures', lbl, t, cl.props, cl.line)
        # exit assertions: like ensures, but may mention locals and are not exported to callers
        for cl in c.asserts:
            try:
                cj = self.spec.eval_conjuncts(cl, env)
            except Exception as e:
                from .speceval import SpecError
                if isinstance(e, SpecError) and ('unknown identifier' in str(e) or 'no field' in str(e) or 'unknown qualified name' in str(e)):
                    continue   # a local that does not exist on this path (e.g. an early return)
                raise
            for lbl, t in cj:
                self.oblige(st, frame, 'assert', lbl, t, cl.props, cl.line)

    # ------------------------------------------------------------------ the interpreter loop
    def run(self, frame, b, i, prev, st, k, header_done=False):
        """execute from instruction i of block b; prev = predecessor block index (for phis)"""
        fn = frame.fn
        blocks = fn.blocks
        while True:
            blk = blocks[b]
            instrs = blk['instrs']
            if i == 0 and header_done:
                header_done = False
            elif i == 0:
                # loop header?
                loops = fn.loops()
                if b in loops and self.cut_loops:
                    mode = self.loop_mode(frame, b, prev, st)
                    if mode == 'cut':
                        if self.enter_loop(frame, b, prev, st, k):
                            return
                    else:
                        cnt = dict(frame.unroll)
                        cnt[b] = cnt.get(b, 0) + 1
                        if self.unroll_bound is not None and cnt[b] > self.unroll_bound:
                            # bounded mode: the unwinding assertion - no feasible path needs more iterations
                            self.oblige(st, frame, 'unwind', 'loop%d@%s' % (loops[b]['ord'], self.short(fn)), z3.BoolVal(False),
                                        self.safety_props, 0, 'a path needs more than %d iterations' % self.unroll_bound)
                            return
                        if self.unroll_bound is None and cnt[b] > 12:
                            raise Unsupported('loop %d of %s: unrolling bound exceeded, needs an invariant' % (loops[b]['ord'], fn.name))
                        frame.unroll = tuple(cnt.items())
                # phis: evaluate simultaneously
                newregs = {}
                for ins in instrs:
                    if ins['op'] != 'Phi':
                        break
                    idx = ins['edges'].index(prev)
                    newregs[ins['reg']] = self.operand(st, frame, ins['args'][idx])
                frame.regs.update(newregs)
            n = len(instrs)
            while i < n:
                ins = instrs[i]
                ins['_b'] = b
                ins['_i'] = i
                op = ins['op']
                if op == 'Phi' or op == 'DebugRef':
                    i += 1
                    continue
                if op == 'If':
                    c = self.truth(self.operand(st, frame, ins['args'][0]))
                    c = z3.simplify(c)
                    s0, s1 = blk['succs']
                    if z3.is_true(c):
                        prev, b, i = b, s0, 0
                        break
                    if z3.is_false(c):
                        prev, b, i = b, s1, 0
                        break
                    # fork
                    for (cond, succ) in ((c, s0), (z3.Not(c), s1)):
                        if not self.feasible(st, cond):
                            continue
                        st2 = st.fork()
                        st2.assume(cond)
                        self.run(frame.copy(), succ, 0, b, st2, k)
                    return
                if op == 'Jump':
                    prev, b, i = b, blk['succs'][0], 0
                    break
                if op == 'Return':
                    results = [self.operand(st, frame, a) for a in ins.get('args') or []]
                    k(st, frame, results, ins)
                    return
                if op == 'Panic':
                    self.safety(st, frame, 'panic', ins, z3.BoolVal(False), 'explicit panic reachable')
                    return
                if op == 'Call':
                    # calls may fork / inline: continuation-passing
                    self.do_call(frame, b, i, prev, st, k, ins)
                    return
                self.step(st, frame, ins)
                i += 1
            else:
                raise Unsupported('block %d of %s falls through' % (b, fn.name))

    def feasible(self, st, cond):
        s = self.prune_solver
        s.push()
        try:
            for t in st.pc:
                if not has_quant(t):
                    s.add(t)
            s.add(cond)
            r = s.check()
        finally:
            s.pop()
        return r != z3.unsat

    def feasible_q(self, st, cond, timeout_ms=1500):
        """like feasible, with the quantified facts of the path and a short timeout (unknown counts as feasible)"""
        s = z3.Solver()
        s.set('timeout', timeout_ms)
        for ax in self.m.string_axioms() + list(self.axioms):
            s.add(ax)
        for t in st.pc:
            s.add(t)
        s.add(cond)
        return s.check() != z3.unsat

    # ------------------------------------------------------------------ loops
    cut_loops = True

    def loop_mode(self, frame, h, prev, st):
        """'cut' (invariant) or 'unroll' (no invariant given and the trip count is concrete)"""
        fn = frame.fn
        L = fn.loops()[h]
        if self.unroll_bound is not None:
            return 'unroll'
        c = self.contract_of(fn)
        if c is not None and L['ord'] in c.loops:
            return 'cut'
        if dict(frame.loopstack).get(h) is not None:
            return 'cut'
        if dict(frame.unroll).get(h):
            return 'unroll'
        # first arrival: is the loop condition decided by concrete values?
        blk = fn.blocks[h]
        last = blk['instrs'][-1]
        if last['op'] != 'If':
            return 'cut'
        # range loop over a slice: header is `t = phi; t+1 < len`; concrete iff len is a literal
        for ins in blk['instrs']:
            if ins['op'] == 'BinOp' and ins['tok'] in ('<', '<=', '>', '>=', '!=') and last['args'][0].get('n') == ins.get('reg'):
                for a in ins['args']:
                    if a['k'] == 'reg' and a['n'] in frame.regs:
                        v = z3.simplify(frame.regs[a['n']].leaves[0])
                        if z3.is_int_value(v) and 0 <= v.as_long() <= 8:
                            return 'unroll'
                    if a['k'] == 'const':
                        continue
        return 'cut'

    def enter_loop(self, frame, h, prev, st, k):
        """returns True if the path was consumed (back edge or loop handled)."""
        fn = frame.fn
        L = fn.loops()[h]
        spec = None
        c = self.contract_of(fn)
        if c is not None:
            spec = c.loops.get(L['ord'])
        active = dict(frame.loopstack)
        if h in active:
            # back edge: check invariants, stop the path
            info = active[h]
            self.assign_phis(frame, h, prev, st)
            if spec is not None:
                if spec.asserts:
                    # lemma steps at the end of the iteration: proved first, then available to the invariants
                    aenv = self.loop_env(frame, st, info, h)
                    aenv.point = (prev, len(fn.blocks[prev]['instrs']))
                    aenv.loop_head = None
                    for cl in spec.asserts:
                        for lbl, t in self.spec.eval_conjuncts(cl, aenv):
                            self.oblige(st, frame, 'assert', 'loop%d:%s' % (L['ord'], lbl), t, cl.props, cl.line)
                            st.assume(t)
                env = self.loop_env(frame, st, info, h)
                for cl in spec.invariants:
                    for lbl, t in self.spec.eval_conjuncts(cl, env):
                        self.oblige(st, frame, 'invariant', 'loop%d:%s:preserved' % (L['ord'], lbl), t, cl.props, cl.line)
                        st.assume(t)   # the invariants are proved in order, each one under the previous ones
                if spec.decreases is not None:
                    d_now = self.spec.eval_term(spec.decreases.ast, env)
                    d_old = info['decreases']
                    self.oblige(st, frame, 'decreases', 'loop%d' % L['ord'], z3.And(d_old >= 0, d_now < d_old), (), spec.decreases.line)
            self.npaths += 1
            if self.npaths > self.max_paths:
                raise PathLimit()
            return True
        if prev is not None and prev in L['body']:
            raise Unsupported('loop re-entry')
        # ---- entering from outside: check invariants on entry
        self.assign_phis(frame, h, prev, st)
        info = {'entry_state': st.fork(), 'ord': L['ord']}
        if spec is not None:
            est = st.fork()
            env = self.loop_env(frame, est, info, h)
            for cl in spec.invariants:
                for lbl, t in self.spec.eval_conjuncts(cl, env):
                    self.oblige(est, frame, 'invariant', 'loop%d:%s:entry' % (L['ord'], lbl), t, cl.props, cl.line)
                    est.assume(t)   # proved in order, each one under the previous ones
        # ---- havoc
        W = self.loop_writes(fn, L)
        M = self.loop_mods(fn, L)
        st = st.fork()
        pre_heaps = dict(st.heaps)
        loop_entry_alloc = st.alloc
        if any(n.startswith('?') for n in W) or any(n.startswith('?') for n in M):
            self.havoc_everything(st, '%s.loop%d' % (fn.short, L['ord']))
        for name in sorted(W):
            if name.startswith('?'):
                continue
            if name in M:
                # objects that existed before the loop may be modified: only the function frame protects them
                self.havoc_heap(st, name, 'loop%d' % L['ord'], self.entry_alloc, self.modset)
            else:
                # the loop only allocates in this heap: everything allocated before the loop is unchanged
                self.havoc_heap(st, name, 'loop%d' % L['ord'], loop_entry_alloc, [])
        na = self.m.fresh('alloc_l%d' % L['ord'], self.m.Int)
        st.assume(na >= st.alloc)
        st.alloc = na
        st.last_print = None   # what earlier iterations printed last is not tracked
        self.flush_ref_axioms(st)
        frame = frame.copy()
        self._cur_frame = frame
        iid = self.loop_iterator(frame, h)
        if iid is not None and iid in st.iters:
            seen, dom0 = st.iters[iid]
            st.iters[iid] = (self.m.fresh('seen_l%d' % L['ord'], seen.sort()), dom0)
        for ins in fn.blocks[h]['instrs']:
            if ins['op'] != 'Phi':
                break
            old = frame.regs[ins['reg']]
            nv = self.m.fresh_val(ins['t'], 'l%d_%s' % (L['ord'], ins.get('comment') or ins['reg']))
            nv.py = old.py
            frame.regs[ins['reg']] = nv
            self.assume_refs(st, nv)
            self.type_invariant(st, nv)
            self.range_phi_bounds(st, fn, h, ins, nv)
        info['head_state'] = None
        if spec is not None:
            env = self.loop_env(frame, st, info, h)
            for cl in spec.invariants:
                st.assume(self.spec.eval_bool(cl.ast, env))
            if spec.decreases is not None:
                info['decreases'] = self.spec.eval_term(spec.decreases.ast, env)
        info['head_state'] = st.fork()
        frame.loopstack = frame.loopstack + ((h, info),)
        self.run_header(frame, h, st, k)
        return True

    def run_header(self, frame, h, st, k):
        # execute header block after phis without re-triggering loop entry
        saved = self.cut_loops
        fn = frame.fn
        instrs = fn.blocks[h]['instrs']
        i = 0
        while i < len(instrs) and instrs[i]['op'] == 'Phi':
            i += 1
        self.run(frame, h, i, None, st, k, header_done=True)

    def assign_phis(self, frame, h, prev, st):
        newregs = {}
        for ins in frame.fn.blocks[h]['instrs']:
            if ins['op'] != 'Phi':
                break
            idx = ins['edges'].index(prev)
            newregs[ins['reg']] = self.operand(st, frame, ins['args'][idx])
        frame.regs.update(newregs)

    def range_phi_bounds(self, st, fn, h, ins, nv):
        """the hidden index of a range loop over a slice/string/int: -1 <= idx < len"""
        if ins.get('comment') == 'rangeindex':
            st.assume(nv.leaves[0] >= -1)
            # header of a range loop: `t = phi; t1 = t + 1; c = t1 < len; if c`: len is fixed before the loop
            blk = fn.blocks[h]['instrs']
            inc = None
            for j in blk:
                if j['op'] == 'BinOp' and j['tok'] == '+' and j['args'][0].get('n') == ins['reg']:
                    inc = j['reg']
                if inc and j['op'] == 'BinOp' and j['tok'] == '<' and j['args'][0].get('n') == inc:
                    b = j['args'][1]
                    if b['k'] == 'reg' and b['n'] in self._cur_frame.regs:
                        st.assume(nv.leaves[0] + 1 <= self._cur_frame.regs[b['n']].leaves[0])
                    elif b['k'] == 'const':
                        st.assume(nv.leaves[0] + 1 <= int(b['v']))

    def loop_env(self, frame, st, info, h):
        env = self.spec.env_for(frame, st, frame.entry if frame.top else info['entry_state'], None)
        env.vars.update({k: v for k, v in getattr(self, 'top_lets', {}).items() if k not in env.vars})
        env.loop_head = h
        env.loop_entry = info['entry_state']
        env.loop_iter = info.get('head_state')
        env.outer_iter = None
        for (h2, info2) in reversed(frame.loopstack):
            if h2 != h and info2.get('head_state') is not None:
                env.outer_iter = info2['head_state']
                break
        nphi = 0
        for ins in frame.fn.blocks[h]['instrs']:
            if ins['op'] != 'Phi':
                break
            nphi += 1
        env.point = (h, nphi)
        return env

    def havoc_heap(self, st, name, tag, entry_alloc, modset):
        """the heap after an unknown number of writes that respect the frame `modset`:
        objects that existed before `entry_alloc` and are not in modset keep their contents.
        Expressed as a lambda overlay, so reads at known old refs reduce syntactically."""
        old = st.heap(name)
        new = self.m.fresh(name.replace('|', '_')[:60] + '_' + tag, old.sort())
        if self.heap_is_ref(name) or self.heap_iface_impls(name):
            self.pending_ref_axioms.append((name, new))
        if modset is not None:
            r = z3.Int('r!frame')
            conds = [r < entry_alloc]
            wild = False
            for (n, ref) in modset:
                if n == name or n == '*':
                    if ref is None:
                        wild = True
                    elif isinstance(ref, PredLoc):
                        conds.append(z3.Not(ref.holds(r)))
                    else:
                        conds.append(r != ref)
            if not wild:
                cond = z3.And(*conds) if len(conds) > 1 else conds[0]
                new = z3.Lambda([r], z3.If(cond, z3.Select(old, r), z3.Select(new, r)))
        st.heaps[name] = new

    # ---- syntactic may-write analysis ------------------------------------------------
    def loop_writes(self, fn, L):
        W = set()
        for b in L['body']:
            for ins in fn.blocks[b]['instrs']:
                self.instr_writes(fn, ins, W, set())
        return W

    def fn_writes(self, fn, seen=None):
        if fn.name in self._wcache:
            return self._wcache[fn.name]
        seen = seen or set()
        if fn.name in seen:
            return set()
        seen = seen | {fn.name}
        W = set()
        for blk in fn.blocks:
            for ins in blk['instrs']:
                self.instr_writes(fn, ins, W, seen)
        if len(seen) == 1:
            self._wcache[fn.name] = W
        return W

    def type_heaps(self, T, prefix=''):
        return {self.hname(T, self.leafpath(prefix, p), s) for (p, s, tk) in self.m.layout(T)} if not prefix else \
               {self.hname(T, self.leafpath(prefix, p), s) for (p, s, tk) in self.m.layout(self._subtype(T, prefix))}

    def _subtype(self, T, prefix):
        cur = T
        for comp in [c for c in prefix.split('.') if c]:
            idx = self.m.field_index(cur, comp)
            cur = self.m.types[self.m.under(cur)]['fields'][idx]['t']
        return cur

    def field_locations(self, U):
        """all (struct type, path) whose leaf type has the same canonical type as U: the places an
        interior pointer *U may point into"""
        if self._fieldloc is None:
            self._fieldloc = {}
            for k, t in self.m.types.items():
                if t['kind'] != 'named' or self.m.kind(k) != 'struct':
                    continue
                if self.m.is_bigint(k) or self.m.is_bigrat(k):
                    continue
                pk = t.get('pkg', '')
                if not pk.startswith(self.prog.module) or '/antlr' in pk:
                    continue
                self._walk_fields(k, k, '', 0)
        return self._fieldloc.get(self.m.canon(U), [])

    def _walk_fields(self, root, T, prefix, depth):
        if depth > 4:
            return
        for f in self.m.types[self.m.under(T)].get('fields') or []:
            ft = f['t']
            path = prefix + f['n'] + '.'
            self._fieldloc.setdefault(self.m.canon(ft), []).append((root, path))
            if self.m.kind(ft) == 'struct' and not self.m.is_bigint(ft) and not self.m.is_bigrat(ft):
                self._walk_fields(root, ft, path, depth + 1)

    _fieldloc = None

    def pointee_heaps(self, U, interior):
        """heaps a write through a *U may touch: a whole object, a slice element, or (interior) a field"""
        lay = self.m.layout(U)
        out = {self.hname(U, p, s) for (p, s, tk) in lay}
        out |= {self.aname(U, p, s) for (p, s, tk) in lay}
        if interior:
            for (T, path) in self.field_locations(U):
                for (p, s, tk) in lay:
                    out.add(self.hname(T, self.leafpath(path, p), s))
                    out.add(self.aname(T, self.leafpath(path, p), s))
        return out

    def addr_heaps(self, fn, op, depth=0):
        """heap names a write through address operand `op` may touch (static over-approximation)"""
        t = op['t']
        U = self.m.elem(t)
        if op['k'] == 'reg' and depth < 6:
            d = fn.defs().get(op['n'])
            if d is not None:
                ins = d[2]
                if ins['op'] == 'FieldAddr':
                    chain = [ins['fname']]
                    cur = ins['args'][0]
                    while cur['k'] == 'reg' and fn.defs().get(cur['n']) and fn.defs()[cur['n']][2]['op'] == 'FieldAddr':
                        ii = fn.defs()[cur['n']][2]
                        chain.append(ii['fname'])
                        cur = ii['args'][0]
                    chain.reverse()
                    T = self.m.elem(cur['t'])
                    prefix = '.'.join(chain) + '.'
                    lay = self.m.layout(U)
                    out = {self.hname(T, self.leafpath(prefix, p), s) for (p, s, tk) in lay}
                    out |= {self.aname(T, self.leafpath(prefix, p), s) for (p, s, tk) in lay}
                    # the base itself may be an interior pointer (param of an inlined function)
                    if cur['k'] in ('param', 'fv'):
                        for (T2, path2) in self.field_locations(T):
                            for (p, s, tk) in lay:
                                out.add(self.hname(T2, self.leafpath(path2 + prefix, p), s))
                                out.add(self.aname(T2, self.leafpath(path2 + prefix, p), s))
                    return out
                if ins['op'] == 'IndexAddr':
                    return {self.aname(U, p, s) for (p, s, tk) in self.m.layout(U)}
                if ins['op'] == 'Alloc':
                    return {self.hname(U, p, s) for (p, s, tk) in self.m.layout(U)}
                if ins['op'] in ('ChangeType', 'Convert'):
                    return self.addr_heaps(fn, ins['args'][0], depth + 1)
                if ins['op'] == 'Phi':
                    out = set()
                    for a in ins['args']:
                        if a['k'] != 'reg' or a['n'] != op['n']:
                            out |= self.addr_heaps(fn, a, depth + 1)
                    return out
                # loaded from memory / returned by a call: a thin pointer = whole object
                return self.pointee_heaps(U, False)
        if op['k'] == 'global':
            return {self.hname(U, p, s) for (p, s, tk) in self.m.layout(U)}
        return self.pointee_heaps(U, op['k'] in ('param', 'fv'))

    def address_taken(self):
        """functions whose value is taken somewhere in the module, by signature type"""
        if self._addrtaken is None:
            tab = {}
            for f in self.prog.funcs.values():
                for blk in f.blocks:
                    for ins in blk['instrs']:
                        if ins['op'] == 'MakeClosure':
                            tab.setdefault(ins['t'], set()).add(ins['callee'])
                        ops = list(ins.get('args') or []) + list(ins.get('bindings') or [])
                        if ins['op'] in ('Call', 'Defer', 'Go') and not ins.get('method'):
                            ops = ops[1:]
                        for a in ops:
                            if a['k'] == 'func':
                                tab.setdefault(a['t'], set()).add(a['n'])
            self._addrtaken = tab
        return self._addrtaken

    _addrtaken = None

    def instr_writes(self, fn, ins, W, seen):
        op = ins['op']
        if op == 'Store':
            W |= self.addr_heaps(fn, ins['args'][0])
        elif op == 'Alloc':
            T = self.m.elem(ins['t'])
            W |= {self.hname(T, p, s) for (p, s, tk) in self.m.layout(T)}
        elif op == 'MapUpdate':
            mt = ins['args'][0]['t']
            W |= self.map_heaps(mt)
        elif op == 'MakeMap':
            W |= self.map_heaps(ins['t'])
        elif op == 'MakeSlice':
            E = self.m.elem(ins['t'])
            W |= {self.aname(E, p, s) for (p, s, tk) in self.m.layout(E)}
        elif op == 'Slice':
            pass
        elif op == 'MakeClosure':
            f2 = self.prog.funcs.get(ins['callee'])
            if f2 is not None:
                W |= self.fn_writes(f2, seen)
        elif op == 'Call':
            callee = ins.get('callee')
            a0 = ins['args'][0]
            if ins.get('method'):
                # interface dispatch
                for f2 in self.dispatch_targets(a0['t'], ins['method']):
                    W |= self.fn_writes(f2, seen)
                W |= lib.invoke_writes(self, a0['t'], ins['method'])
            elif a0['k'] == 'builtin':
                if a0['n'] == 'append':
                    E = self.m.elem(ins['t'])
                    W |= {self.aname(E, p, s) for (p, s, tk) in self.m.layout(E)}
                elif a0['n'] == 'delete':
                    W |= self.map_heaps(ins['args'][1]['t'])
                elif a0['n'] == 'copy':
                    E = self.m.elem(ins['args'][1]['t'])
                    W |= {self.aname(E, p, s) for (p, s, tk) in self.m.layout(E)}
            elif callee and callee in self.prog.funcs and not self.prog.funcs[callee].external:
                W |= self.fn_writes(self.prog.funcs[callee], seen)
            elif callee:
                W |= lib.static_writes(self, callee, ins, fn)
            else:
                # call through a function value: any function of that signature whose address is taken
                for name in sorted(self.address_taken().get(a0['t'], ())):
                    f2 = self.prog.funcs.get(name)
                    if f2 is not None and not f2.external:
                        W |= self.fn_writes(f2, seen)

    # ---- which heaps may be MODIFIED at objects that existed before the scope (loop / function) began
    FRESH_CALLS = ('math/big.NewInt', 'math/big.NewRat')

    def root_fresh(self, fn, op, scope, depth=0):
        """is the object addressed through operand `op` certainly allocated inside `scope` (set of blocks)?"""
        if op['k'] != 'reg' or depth > 8:
            return False
        d = fn.defs().get(op['n'])
        if d is None:
            return False
        b, i, ins = d
        o = ins['op']
        if o in ('Alloc', 'MakeMap', 'MakeSlice'):
            return b in scope
        if o == 'Call':
            a0 = ins['args'][0]
            if ins.get('callee') in self.FRESH_CALLS:
                return b in scope
            if a0['k'] == 'builtin' and a0['n'] == 'append':
                return b in scope
            if ins.get('callee', '').startswith('(*math/big.') and len(ins['args']) > 1:
                # z.Op(...) returns z
                return self.root_fresh(fn, ins['args'][1], scope, depth + 1)
            return False
        if o in ('FieldAddr', 'IndexAddr', 'ChangeType', 'Convert', 'Slice'):
            return self.root_fresh(fn, ins['args'][0], scope, depth + 1)
        if o == 'Phi':
            return all(self.root_fresh(fn, a, scope, depth + 1) for a in ins['args'] if not (a['k'] == 'reg' and a['n'] == op['n']))
        return False

    def static_mod_names(self, f2, c):
        """heap names of a contract's modifies clause, computed from the parameter types (no state needed)"""
        out = set()
        ptypes = {p['n']: p['t'] for p in f2.params}
        m = self.m

        def static_type(ast):
            if ast[0] == 'id' and ast[1] in ptypes:
                return ptypes[ast[1]]
            if ast[0] == 'sel':
                bt = static_type(ast[1])
                if bt is None:
                    return None
                T = m.elem(bt) if m.kind(bt) == 'pointer' else bt
                path = self.spec.find_field(T, ast[2])
                if path is None:
                    return None
                cur = T
                for comp in path:
                    cur = m.types[m.under(cur)]['fields'][m.field_index(cur, comp)]['t']
                return cur
            if ast[0] == 'idx':
                bt = static_type(ast[1])
                if bt is None:
                    return None
                k = m.kind(bt)
                if k in ('slice', 'map'):
                    return m.types[m.under(bt)]['elem']
            return None
        for cl in c.modifies:
            ast = cl.ast
            try:
                if ast[0] == 'call' and ast[1][0] == 'id':
                    f = ast[1][1]
                    if f == 'heap':
                        t = ast[2][0][1] if ast[2][0][0] == 'id' else None
                        if t == 'bigint':
                            out.add('H|bigint||Int')
                        elif t == 'bigrat':
                            out.add('H|bigrat||Real')
                        else:
                            return None
                    elif f == 'cellsof':
                        out.add('H|bigint||Int')
                    elif f == 'innermapsof':
                        out |= self.map_heaps('map[string]*math/big.Int')
                    elif f == 'innermaps':
                        bt = static_type(ast[2][0])
                        if bt is None:
                            return None
                        out |= self.map_heaps(m.types[m.under(bt)]['elem'])
                    elif f in ('val', 'rat'):
                        out.add('H|bigint||Int' if f == 'val' else 'H|bigrat||Real')
                        bt = static_type(ast[2][0])
                        if bt is None:
                            return None
                        out |= self.pointee_heaps(m.elem(bt), True)
                    elif f == 'elems':
                        bt = static_type(ast[2][0])
                        if bt is None:
                            return None
                        E = m.elem(bt)
                        out |= {self.aname(E, p, s) for (p, s, tk) in m.layout(E)}
                    elif f == 'entries':
                        bt = static_type(ast[2][0])
                        if bt is None:
                            return None
                        out |= self.map_heaps(bt)
                    elif f in ('allentries', 'allof', 'allelems'):
                        tk = self.spec.type_key(ast[2][0])
                        if f == 'allentries':
                            out |= self.map_heaps(tk)
                        elif f == 'allof':
                            out |= {self.hname(tk, p, s) for (p, s, t2) in m.layout(tk)}
                        else:
                            out |= {self.aname(tk, p, s) for (p, s, t2) in m.layout(tk)}
                    else:
                        return None
                elif ast[0] == 'sel':
                    bt = static_type(ast[1])
                    ft = static_type(ast)
                    if bt is None or ft is None or m.kind(bt) != 'pointer':
                        return None
                    T = m.elem(bt)
                    path = self.spec.find_field(T, ast[2])
                    prefix = '.'.join(path) + '.'
                    out |= {self.hname(T, self.leafpath(prefix, p), s) for (p, s, tk) in m.layout(ft)}
                elif ast[0] == 'un' and ast[1] == '*':
                    bt = static_type(ast[2])
                    if bt is None:
                        return None
                    out |= self.pointee_heaps(m.elem(bt), True)
                else:
                    return None
            except Exception:
                return None
        return out

    def fn_mods(self, fn, seen=None):
        if fn.name in self._mcache:
            return self._mcache[fn.name]
        seen = seen or set()
        if fn.name in seen:
            return set()
        seen = seen | {fn.name}
        M = set()
        scope = set(range(len(fn.blocks)))
        for blk in fn.blocks:
            for ins in blk['instrs']:
                self.instr_mods(fn, ins, M, seen, scope)
        if len(seen) == 1:
            self._mcache[fn.name] = M
        return M

    def loop_mods(self, fn, L):
        M = set()
        for b in L['body']:
            for ins in fn.blocks[b]['instrs']:
                self.instr_mods(fn, ins, M, set(), L['body'])
        return M

    def callee_mods(self, f2, seen):
        c = self.contract_of(f2)
        if c is not None and 'inline' not in c.flags:
            if c.modifies is not None:
                names = self.static_mod_names(f2, c)
                if names is not None:
                    return names
            return set(self.fn_writes(f2))
        return self.fn_mods(f2, seen)

    def instr_mods(self, fn, ins, M, seen, scope):
        op = ins['op']
        if op == 'Store':
            if not self.root_fresh(fn, ins['args'][0], scope):
                M |= self.addr_heaps(fn, ins['args'][0])
        elif op == 'MapUpdate':
            if not self.root_fresh(fn, ins['args'][0], scope):
                M |= self.map_heaps(ins['args'][0]['t'])
        elif op == 'Call':
            callee = ins.get('callee')
            a0 = ins['args'][0]
            if ins.get('method'):
                for f2 in self.dispatch_targets(a0['t'], ins['method']):
                    M |= self.callee_mods(f2, seen)
            elif a0['k'] == 'builtin':
                if a0['n'] == 'delete':
                    if not self.root_fresh(fn, ins['args'][1], scope):
                        M |= self.map_heaps(ins['args'][1]['t'])
                elif a0['n'] == 'copy':
                    E = self.m.elem(ins['args'][1]['t'])
                    M |= {self.aname(E, p, s) for (p, s, tk) in self.m.layout(E)}
            elif callee and a0['k'] != 'reg' and callee in self.prog.funcs and not self.prog.funcs[callee].external:
                M |= self.callee_mods(self.prog.funcs[callee], seen)
            elif callee and a0['k'] != 'reg':
                w = lib.static_writes(self, callee, ins, fn)
                if w and not (callee in self.FRESH_CALLS):
                    if callee.startswith('(*math/big.') and len(ins['args']) > 1 and self.root_fresh(fn, ins['args'][1], scope):
                        pass
                    elif callee.startswith('strings.') or callee.startswith('(*regexp.') or 'maps.Keys' in callee:
                        pass  # these only allocate their result
                    else:
                        M |= w
            else:
                for name in sorted(self.address_taken().get(a0['t'], ())):
                    f2 = self.prog.funcs.get(name)
                    if f2 is not None and not f2.external:
                        M |= self.callee_mods(f2, seen)

    def map_heaps(self, mt):
        V = self.m.types[self.m.under(mt)]['elem']
        out = {'MD|%s' % self.m.under(mt)}
        for (p, s, tk) in self.m.layout(V):
            out.add('MV|%s|%s|%s' % (self.m.under(mt), p, s))
        return out

    def dispatch_targets(self, iface_t, method):
        out = []
        t = self.m.types.get(iface_t)
        impls = (t or {}).get('impls') or []
        for c in impls:
            tab = self.prog.methods.get(c) or {}
            if method in tab and tab[method] in self.prog.funcs:
                out.append(self.prog.funcs[tab[method]])
        return out

    # ------------------------------------------------------------------ single instructions
    def step(self, st, frame, ins):
        op = ins['op']
        h = getattr(self, 'i_' + op, None)
        if h is None:
            raise Unsupported('instruction %s in %s' % (op, frame.fn.name))
        r = h(st, frame, ins)
        if ins.get('reg') and r is not None:
            frame.regs[ins['reg']] = r

    def i_Alloc(self, st, frame, ins):
        T = self.m.elem(ins['t'])
        if self.m.kind(T) == 'array':
            # a local array (e.g. the backing store of variadic arguments): an array object
            E = self.m.elem(T)
            arr = self.alloc_ref(st)
            for (p, s, tk) in self.m.layout(E):
                name = self.aname(E, p, s)
                self.written.add(name)
                st.heaps[name] = z3.Store(st.heap(name), arr, z3.K(self.m.Int, self.m.zero(s)))
            return Val(ins['t'], [arr], ptr=Ptr('arr', E, '', arr))
        r = self.new_object(st, frame, T)
        return Val(ins['t'], [r], ptr=Ptr('obj', T, '', r))

    def i_Store(self, st, frame, ins):
        addr = self.operand(st, frame, ins['args'][0])
        v = self.operand(st, frame, ins['args'][1])
        p = self.ptr_of(addr)
        self.nil_check(st, frame, ins, p)
        if v.py is not None and isinstance(v.py, Closure):
            # closures stored in memory: keep python-side object in a side table keyed by location
            self.closure_cells[(p.kind, p.T, p.path, z3.simplify(p.ref).get_id())] = v.py
            self._cc_keep.append(z3.simplify(p.ref))
        self.store(st, frame, p, v, self.m.elem(addr.t))
        return None

    def nil_check(self, st, frame, ins, p):
        if p.kind != 'obj':
            return  # element pointers exist only after a successful bounds check
        ref = p.ref
        c = z3.simplify(ref != 0)
        if z3.is_true(c):
            return
        self.safety(st, frame, 'nil', ins, c, 'nil pointer dereference')

    def i_UnOp(self, st, frame, ins):
        x = self.operand(st, frame, ins['args'][0])
        tok = ins['tok']
        if tok == '*':
            p = self.ptr_of(x)
            self.nil_check(st, frame, ins, p)
            v = self.load(st, p, ins['t'])
            if x.ptr is None and self.m.kind(ins['t']) == 'struct' and x.t in self.m.any_index and self.db.contracts \
                    and (self.m.types.get(ins['t']) or {}).get('pkg', '').endswith('/internal/parser'):
                # a whole AST node is copied out of its pointer: the definition of its well-formedness applies
                from . import specfuns
                env = self.spec.env_for(frame, st, st, None)
                specfuns.unfold_any(self.spec, env, None, self.m.any_make(x.t, [x.leaves[0]]), [x.t])
            key = (p.kind, p.T, p.path, z3.simplify(p.ref).get_id()) if self.closure_cells else None
            if key in self.closure_cells:
                v.py = self.closure_cells[key]
            a0 = ins['args'][0]
            if a0['k'] == 'global':
                v.py = ('globalval', a0['n'])
                lit = self.string_slice_globals().get(a0['n'])
                if lit is not None and len(v.leaves) == 3 and self.m.kind(ins['t']) == 'slice':
                    # a package-level []string assigned once, in the package initialiser, from a literal of constants
                    arr, off, ln = v.leaves
                    E = self.m.elem(ins['t'])
                    st.assume(ln == len(lit))
                    for k_, text in enumerate(lit):
                        ev = self.load(st, Ptr('elem', E, '', arr, add0(off, z3.IntVal(k_))), E)
                        st.assume(ev.leaves[0] == self.m.strconst(text))
                    self.trusted.add('package-level slice %s keeps the content of its initialiser (assigned only there; its elements are assumed not to be overwritten)' % a0['n'].rsplit('.', 1)[-1])
                if a0['n'] in self.regex_globals() and len(v.leaves) == 1:
                    # assigned once, from regexp.MustCompile, in the package initialiser
                    st.assume(v.leaves[0] != 0)
                    self.trusted.add('package-level regexp %s is initialised by MustCompile (non-nil)' % a0['n'].rsplit('.', 1)[-1])
            return v
        if tok == '!':
            return Val(ins['t'], [z3.Not(x.leaves[0])])
        if tok == '-':
            return Val(ins['t'], [-x.leaves[0]])
        if tok == '^':
            f = self.m.uf('bitnot', self.m.Int, self.m.Int)
            return Val(ins['t'], [f(x.leaves[0])])
        raise Unsupported('unop ' + tok)

    def i_BinOp(self, st, frame, ins):
        x = self.operand(st, frame, ins['args'][0])
        y = self.operand(st, frame, ins['args'][1])
        return self.binop(st, frame, ins, ins['tok'], x, y, ins['t'])

    def binop(self, st, frame, ins, tok, x, y, rt):
        m = self.m
        if tok in ('==', '!='):
            eq = self.val_eq(x, y)
            return Val(rt, [eq if tok == '==' else z3.Not(eq)])
        a, b = x.leaves[0], y.leaves[0]
        sort = m.layout(x.t)[0][1]
        if sort == 'Str':
            if tok == '+':
                r = m.sconcat(a, b)
                st.assume(m.slen(r) == m.slen(a) + m.slen(b))
                return Val(rt, [r])
            f = m.uf('strlt', m.Str, m.Str, m.Bool)
            if tok == '<':
                return Val(rt, [f(a, b)])
            if tok == '>':
                return Val(rt, [f(b, a)])
            if tok == '<=':
                return Val(rt, [z3.Not(f(b, a))])
            if tok == '>=':
                return Val(rt, [z3.Not(f(a, b))])
            raise Unsupported('string op ' + tok)
        if tok == '<':
            return Val(rt, [a < b])
        if tok == '<=':
            return Val(rt, [a <= b])
        if tok == '>':
            return Val(rt, [a > b])
        if tok == '>=':
            return Val(rt, [a >= b])
        if sort == 'Real':
            if tok in '+-*/':
                r = {'+': a + b, '-': a - b, '*': a * b, '/': a / b}[tok]
                return Val(rt, [r])
            raise Unsupported('float op ' + tok)
        if sort == 'Bool':
            if tok == '&' or tok == '&&':
                return Val(rt, [z3.And(a, b)])
            if tok == '|' or tok == '||':
                return Val(rt, [z3.Or(a, b)])
            raise Unsupported('bool op ' + tok)
        if tok == '+':
            r = a + b
        elif tok == '-':
            r = a - b
        elif tok == '*':
            r = a * b
        elif tok == '/':
            self.safety(st, frame, 'div', ins, b != 0, 'integer division by zero')
            # Go truncates toward zero
            q = m.uf('godiv', m.Int, m.Int, m.Int)
            r = z3.If(z3.And(a >= 0, b > 0), a / b, q(a, b))
        elif tok == '%':
            self.safety(st, frame, 'div', ins, b != 0, 'integer division by zero')
            q = m.uf('gomod', m.Int, m.Int, m.Int)
            r = z3.If(z3.And(a >= 0, b > 0), a % b, q(a, b))
        else:
            f = m.uf('bitop_' + {'&': 'and', '|': 'or', '^': 'xor', '<<': 'shl', '>>': 'shr', '&^': 'andnot'}.get(tok, 'x'), m.Int, m.Int, m.Int)
            r = f(a, b)
            return Val(rt, [r])
        if self.arith_overflow:
            u = m.types[m.under(rt)]
            if u['kind'] == 'basic' and u['name'] in INT_RANGES:
                lo, hi = INT_RANGES[u['name']]
                self.safety(st, frame, 'overflow', ins, z3.And(r >= lo, r <= hi), 'integer overflow')
        return Val(rt, [r])

    def val_eq(self, x, y):
        # nil comparisons for slices: only the array ref counts
        kx = self.m.kind(x.t)
        if kx == 'slice':
            return x.leaves[0] == y.leaves[0]
        if x.ptr is not None or y.ptr is not None:
            px, py = x.ptr, y.ptr
            if px is None or py is None:
                # fat vs thin: equal only if the fat one is a whole object
                a = px or py
                other = (y if px is not None else x).leaves[0]
                if a.kind == 'obj' and a.path == '':
                    return a.ref == other
                # a pointer into the middle of an object is never nil and never equal to an object ref
                return z3.BoolVal(False)
            if (px.kind, px.T, px.path) != (py.kind, py.T, py.path):
                return z3.BoolVal(False)
            e = px.ref == py.ref
            if px.kind == 'elem':
                e = z3.And(e, px.idx == py.idx)
            return e
        if len(x.leaves) != len(y.leaves):
            raise Unsupported('comparison of %s and %s' % (x.t, y.t))
        if not x.leaves:
            return z3.BoolVal(True)
        return z3.And(*[a == b for a, b in zip(x.leaves, y.leaves)]) if len(x.leaves) > 1 else x.leaves[0] == y.leaves[0]

    def i_ChangeType(self, st, frame, ins):
        x = self.operand(st, frame, ins['args'][0])
        return Val(ins['t'], x.leaves, ptr=x.ptr, py=x.py)

    def i_ChangeInterface(self, st, frame, ins):
        x = self.operand(st, frame, ins['args'][0])
        return Val(ins['t'], x.leaves)

    def i_Convert(self, st, frame, ins):
        x = self.operand(st, frame, ins['args'][0])
        src, dst = x.t, ins['t']
        ls = self.m.layout(src)
        ld = self.m.layout(dst)
        if len(ls) == 1 and len(ld) == 1:
            s0, d0 = ls[0][1], ld[0][1]
            if s0 == d0:
                if s0 == 'Int':
                    u = self.m.types[self.m.under(dst)]
                    su = self.m.types[self.m.under(src)]
                    if u['kind'] == 'basic' and u['name'] in INT_RANGES and su['kind'] == 'basic':
                        lo, hi = INT_RANGES[u['name']]
                        slo, shi = INT_RANGES.get(su['name'], (None, None))
                        if slo is None or slo < lo or shi > hi:
                            # narrowing / sign change: wraps in Go; model as uninterpreted unless in range
                            w = self.m.uf('wrap_' + u['name'], self.m.Int, self.m.Int)
                            v = x.leaves[0]
                            r = z3.If(z3.And(v >= lo, v <= hi), v, w(v))
                            st.assume(z3.And(w(v) >= lo, w(v) <= hi))
                            return Val(dst, [r])
                return Val(dst, x.leaves, ptr=x.ptr)
            if s0 == 'Int' and d0 == 'Real':
                return Val(dst, [z3.ToReal(x.leaves[0])])
            if s0 == 'Real' and d0 == 'Int':
                f = self.m.uf('float2int', self.m.Real, self.m.Int)
                return Val(dst, [f(x.leaves[0])])
            if s0 == 'Int' and d0 == 'Str':
                f = self.m.uf('rune2str', self.m.Int, self.m.Str)
                return Val(dst, [f(x.leaves[0])])
        # string <-> []byte / []rune
        if len(ls) == 1 and ls[0][1] == 'Str' and self.m.kind(dst) == 'slice':
            arr = self.alloc_ref(st)
            ln = self.m.slen(x.leaves[0])
            E = self.m.elem(dst)
            name = self.aname(E, '', 'Int')
            self.written.add(name)
            f = self.m.uf('str2bytes', self.m.Str, z3.ArraySort(self.m.Int, self.m.Int))
            st.heaps[name] = z3.Store(st.heap(name), arr, f(x.leaves[0]))
            st.assume(ln >= 0)
            return Val(dst, [arr, z3.IntVal(0), ln])
        if self.m.kind(src) == 'slice' and len(ld) == 1 and ld[0][1] == 'Str':
            E = self.m.elem(src)
            f = self.m.uf('bytes2str', z3.ArraySort(self.m.Int, self.m.Int), self.m.Int, self.m.Int, self.m.Str)
            arr = z3.Select(st.heap(self.aname(E, '', 'Int')), x.leaves[0])
            r = f(arr, x.leaves[1], x.leaves[2])
            st.assume(self.m.slen(r) == x.leaves[2])
            return Val(dst, [r])
        raise Unsupported('convert %s -> %s' % (src, dst))

    def i_MakeInterface(self, st, frame, ins):
        x = self.operand(st, frame, ins['args'][0])
        leaves = list(x.leaves)
        if x.ptr is not None:
            r = self.scalar_ptr(st, x.ptr, x.t)
            if r is None:
                raise Unsupported('interior pointer stored in interface')
            leaves = [r]
        return Val(ins['t'], [self.m.any_make(x.t, leaves)])

    def wf_unfold(self, st, frame, v):
        """definition of the well-formedness predicate at a node the code is about to inspect (fuel on demand)"""
        if not self.db.contracts:
            return
        t = self.m.types.get(v.t) or {}
        impls = t.get('impls') or (self.m.types.get(self.m.under(v.t)) or {}).get('impls')
        if not impls:
            return
        if not (t.get('pkg') or '').endswith('/internal/parser'):
            return   # the well-formedness predicates are about AST nodes
        from . import specfuns
        env = self.spec.env_for(frame, st, st, None)
        excl = self.db.wfexclude.get(t.get('name', ''), set())
        cands = [c for c in impls if c.rsplit('.', 1)[-1] not in excl]
        specfuns.unfold_any(self.spec, env, v.t, v.leaves[0], cands)
        if self.db.uses_ewf:
            specfuns.unfold_any(self.spec, env, v.t, v.leaves[0], cands, 'ewf')
            ewf = specfuns.wf_any_fn(self.spec, 'ewf')
            for c in impls:
                if c.rsplit('.', 1)[-1] in excl and c in self.m.any_index:
                    st.assume(z3.Not(z3.And(ewf(v.leaves[0]), self.m.any_is(c, v.leaves[0]))))
        # the excluded implementers are never well-formed nodes of this interface
        wf = specfuns.wf_any_fn(self.spec)
        for c in impls:
            if c.rsplit('.', 1)[-1] in excl and c in self.m.any_index:
                st.assume(z3.Not(z3.And(wf(v.leaves[0]), self.m.any_is(c, v.leaves[0]))))

    def i_TypeAssert(self, st, frame, ins):
        x = self.operand(st, frame, ins['args'][0])
        a = x.leaves[0]
        self.wf_unfold(st, frame, x)
        at = ins['assert_t']
        m = self.m
        if m.kind(at) == 'interface':
            ok = self.iface_ok(a, at)
            if ins.get('commaok'):
                val = z3.If(ok, a, m.Any.nil)
                return Val(ins['t'], [val, ok])
            self.safety(st, frame, 'typeassert', ins, ok, 'failed type assertion')
            return Val(ins['t'], [a])
        if at not in m.any_index:
            raise Unsupported('type assert to unknown concrete type ' + at)
        ok = m.any_is(at, a)
        got = m.any_get(at, a)
        self.assume_payload_refs(st, at, a)
        self.assume_closed(st, x)
        if m.kind(at) == 'pointer' and lib.is_externpure(self, at):
            # T3: a parse-tree interface never holds a typed nil pointer
            st.assume(z3.Implies(ok, got[0] != 0))
            self.trusted.add('T3: interfaces of the parse tree never hold typed nil pointers')
        if ins.get('commaok'):
            zero = m.zero_val(at).leaves
            leaves = [z3.If(ok, g, z) for g, z in zip(got, zero)]
            return Val(ins['t'], leaves + [ok])
        self.safety(st, frame, 'typeassert', ins, ok, 'failed type assertion')
        v = Val(at, got)
        return v

    def assume_closed(self, st, v):
        """a value of a `closed` interface is nil or one of the implementers known to the module"""
        t = self.m.types.get(v.t) or {}
        nm = (t.get('pkg', '').rsplit('/', 1)[-1] + '.' if t.get('pkg') else '') + t.get('name', '')
        if nm not in self.db.closed:
            return
        a = v.leaves[0]
        alts = [a == self.m.Any.nil]
        for c in self.m.any_types:
            if self.m.implements(c, v.t):
                alts.append(self.m.any_is(c, a))
        st.assume(z3.Or(*alts))
        self.trusted.add('T3: %s is a closed interface' % nm)

    def assume_iface_refs(self, st, v):
        """an interface value just produced (result of a call): whatever it holds was allocated by now"""
        for (path, sort, tk), leaf in zip(self.m.layout(v.t), v.leaves):
            if sort != 'Any' or self.m.kind(tk) != 'interface':
                continue
            t = self.m.types.get(tk) or {}
            impls = t.get('impls') or (self.m.types.get(self.m.under(tk)) or {}).get('impls') or []
            for c in impls:
                if c in self.m.any_index:
                    self.assume_payload_refs(st, c, leaf)

    def assume_payload_refs(self, st, c, a):
        """every reference stored inside an existing interface value denotes an allocated object"""
        for (path, sort, tk), leaf in zip(self.m.layout(c), self.m.any_get(c, a)):
            if sort == 'Int':
                k = self.m.kind(tk)
                if k in ('pointer', 'map') or (k == 'slice' and path.endswith('#arr')):
                    st.assume(z3.Implies(self.m.any_is(c, a), z3.And(leaf >= 0, leaf < st.alloc)))

    def iface_ok(self, a, iface_t):
        m = self.m
        it = m.types[m.under(iface_t)]
        if not (it.get('methods') or []):
            return a != m.Any.nil
        alts = []
        for c in m.any_types:
            if m.implements(c, iface_t):
                alts.append(m.any_is(c, a))
        f = m.uf('other_implements_' + str(abs(hash(iface_t)) % 100000), m.Int, m.Bool)
        alts.append(z3.And(m.Any.is_other(a), f(m.Any.other_ty(a))))
        return z3.Or(*alts)

    def i_Extract(self, st, frame, ins):
        x = self.operand(st, frame, ins['args'][0])
        if x.py is not None and isinstance(x.py, list):
            return x.py[ins.get('field', 0)]
        # tuple laid out flat
        elems = self.m.types[x.t]['elems']
        pos = 0
        for i, e in enumerate(elems):
            n = len(self.m.layout(e))
            if i == ins.get('field', 0):
                return Val(e, x.leaves[pos:pos + n])
            pos += n
        raise Unsupported('extract')

    def tuple_val(self, t, vals):
        leaves = []
        for v in vals:
            leaves.extend(v.leaves)
        return Val(t, leaves, py=list(vals))

    def i_Field(self, st, frame, ins):
        x = self.operand(st, frame, ins['args'][0])
        a, b, ft, fname = self.m.field_slice(x.t, ins.get('field', 0))
        return Val(ft, x.leaves[a:b])

    def i_FieldAddr(self, st, frame, ins):
        x = self.operand(st, frame, ins['args'][0])
        p = self.ptr_of(x)
        self.nil_check(st, frame, ins, p)
        np = Ptr(p.kind, p.T, p.path + ins['fname'] + '.', p.ref, p.idx)
        return Val(ins['t'], [z3.IntVal(-1)], ptr=np)

    def i_IndexAddr(self, st, frame, ins):
        x = self.operand(st, frame, ins['args'][0])
        i = self.operand(st, frame, ins['args'][1]).leaves[0]
        k = self.m.kind(x.t)
        if k == 'slice':
            arr, off, ln = x.leaves
            self.safety(st, frame, 'index', ins, z3.And(i >= 0, i < ln), 'index out of range')
            E = self.m.elem(x.t)
            if all(not i.eq(j) for j in st.recent_idx):
                st.recent_idx = (st.recent_idx + (i,))[-3:]
            return Val(ins['t'], [z3.IntVal(-1)], ptr=Ptr('elem', E, '', arr, add0(off, i)))
        if k == 'pointer' and self.m.kind(self.m.elem(x.t)) == 'array':
            AT = self.m.elem(x.t)
            n = self.m.types[self.m.under(AT)].get('len', 0)
            E = self.m.elem(AT)
            arr = x.ptr.ref if x.ptr is not None else x.leaves[0]
            self.safety(st, frame, 'index', ins, z3.And(i >= 0, i < n), 'index out of range')
            return Val(ins['t'], [z3.IntVal(-1)], ptr=Ptr('elem', E, '', arr, i))
        raise Unsupported('IndexAddr on ' + x.t)

    def i_Index(self, st, frame, ins):
        x = self.operand(st, frame, ins['args'][0])
        i = self.operand(st, frame, ins['args'][1]).leaves[0]
        lay = self.m.layout(x.t)
        if len(lay) == 1 and lay[0][1] == 'Str':
            self.safety(st, frame, 'index', ins, z3.And(i >= 0, i < self.m.slen(x.leaves[0])), 'string index out of range')
            return Val(ins['t'], [self.m.sbyte(x.leaves[0], i)])
        raise Unsupported('Index on ' + x.t)

    def i_Slice(self, st, frame, ins):
        x = self.operand(st, frame, ins['args'][0])
        lo = ins['args'][1]
        hi = ins['args'][2]
        lo_t = self.operand(st, frame, lo).leaves[0] if lo['k'] != 'none' else z3.IntVal(0)
        lay = self.m.layout(x.t)
        if len(lay) == 1 and lay[0][1] == 'Str':
            s = x.leaves[0]
            hi_t = self.operand(st, frame, hi).leaves[0] if hi['k'] != 'none' else self.m.slen(s)
            self.safety(st, frame, 'slice', ins, z3.And(0 <= lo_t, lo_t <= hi_t, hi_t <= self.m.slen(s)), 'slice bounds out of range')
            r = self.m.ssub(s, lo_t, hi_t)
            st.assume(self.m.slen(r) == hi_t - lo_t)
            st.assume(z3.Implies(z3.And(lo_t == 0, hi_t == self.m.slen(s)), r == s))
            return Val(ins['t'], [r])
        if self.m.kind(x.t) == 'slice':
            arr, off, ln = x.leaves
            hi_t = self.operand(st, frame, hi).leaves[0] if hi['k'] != 'none' else ln
            # bounds are against capacity in Go; we only know the length (A2): require hi <= len
            self.safety(st, frame, 'slice', ins, z3.And(0 <= lo_t, lo_t <= hi_t, hi_t <= ln), 'slice bounds out of range')
            lo_s = z3.simplify(lo_t)
            if z3.is_int_value(lo_s) and lo_s.as_long() == 0:
                return Val(ins['t'], [arr, z3.IntVal(0), z3.simplify(hi_t)])
            # s[lo:hi] with lo != 0: modelled as a shifted copy (aliasing with s is not modelled, DESIGN A2)
            E = self.m.elem(x.t)
            na = self.alloc_ref(st)
            i = z3.Int('i!sl')
            for (p, srt, tk) in self.m.layout(E):
                name = self.aname(E, p, srt)
                h = st.heap(name)
                st.heaps[name] = z3.Store(h, na, z3.Lambda([i], z3.Select(z3.Select(h, arr), i + lo_t)))
                self.written.add(name)
            self.trusted.add('A2: a slice expression with non-zero low bound is a copy')
            return Val(ins['t'], [na, z3.IntVal(0), z3.simplify(hi_t - lo_t)])
        if self.m.kind(x.t) == 'pointer' and self.m.kind(self.m.elem(x.t)) == 'array':
            AT = self.m.elem(x.t)
            n = self.m.types[self.m.under(AT)].get('len', 0)
            arr = x.ptr.ref if x.ptr is not None else x.leaves[0]
            hi_t = self.operand(st, frame, hi).leaves[0] if hi['k'] != 'none' else z3.IntVal(n)
            self.safety(st, frame, 'slice', ins, z3.And(0 <= lo_t, lo_t <= hi_t, hi_t <= n), 'slice bounds out of range')
            return Val(ins['t'], [arr, z3.simplify(lo_t), z3.simplify(hi_t - lo_t)])
        raise Unsupported('Slice on ' + x.t)

    def i_MakeSlice(self, st, frame, ins):
        ln = self.operand(st, frame, ins['args'][0]).leaves[0]
        self.safety(st, frame, 'makeslice', ins, ln >= 0, 'negative slice length')
        E = self.m.elem(ins['t'])
        arr = self.alloc_ref(st)
        for (p, s, tk) in self.m.layout(E):
            name = self.aname(E, p, s)
            self.written.add(name)
            st.heaps[name] = z3.Store(st.heap(name), arr, z3.K(self.m.Int, self.m.zero(s)))
        return Val(ins['t'], [arr, z3.IntVal(0), ln])

    def i_MakeMap(self, st, frame, ins):
        mt = ins['t']
        r = self.alloc_ref(st)
        ks = self.m.map_key_sort(mt)
        name = 'MD|%s' % self.m.under(mt)
        self.written.add(name)
        st.heaps[name] = z3.Store(st.heap(name), r, z3.K(ks, z3.BoolVal(False)))
        return Val(mt, [r])

    def map_parts(self, mt):
        u = self.m.under(mt)
        V = self.m.types[u]['elem']
        K = self.m.types[u]['key']
        return u, K, V

    def map_lookup(self, st, mt, mref, key):
        """(value Val, present Bool)"""
        u, K, V = self.map_parts(mt)
        dom = z3.Select(st.heap('MD|%s' % u), mref)
        present = z3.And(mref != 0, z3.Select(dom, key))
        leaves = []
        for (p, s, tk) in self.m.layout(V):
            if p.endswith('#off'):
                leaves.append(z3.IntVal(0))   # representation invariant of slices
                continue
            vals = z3.Select(st.heap('MV|%s|%s|%s' % (u, p, s)), mref)
            leaves.append(z3.If(present, z3.Select(vals, key), self.m.zero(s)))
        v = Val(V, leaves)
        return v, present

    def i_Lookup(self, st, frame, ins):
        x = self.operand(st, frame, ins['args'][0])
        kx = self.operand(st, frame, ins['args'][1])
        if self.m.kind(x.t) == 'map':
            key = self.key_term(kx)
            v, present = self.map_lookup(st, x.t, x.leaves[0], key)
            self.assume_refs_cond(st, v, present)
            if ins.get('commaok'):
                return self.tuple_val(ins['t'], [v, Val('bool', [present])])
            return v
        lay = self.m.layout(x.t)
        if len(lay) == 1 and lay[0][1] == 'Str':
            i = kx.leaves[0]
            self.safety(st, frame, 'index', ins, z3.And(i >= 0, i < self.m.slen(x.leaves[0])), 'string index out of range')
            return Val(ins['t'], [self.m.sbyte(x.leaves[0], i)])
        raise Unsupported('Lookup on ' + x.t)

    def assume_refs_cond(self, st, v, cond):
        for (path, sort, tk), leaf in zip(self.m.layout(v.t), v.leaves):
            if sort == 'Int':
                k = self.m.kind(tk)
                if k in ('pointer', 'map') or (k == 'slice' and path.endswith('#arr')):
                    st.assume(z3.And(leaf >= 0, leaf < st.alloc))
                elif k == 'slice':
                    st.assume(leaf >= 0)

    def key_term(self, kv):
        if kv.ptr is not None:
            r = self.scalar_ptr(None, kv.ptr, kv.t)
            if r is None:
                raise Unsupported('interior pointer as map key')
            return r
        if len(kv.leaves) != 1:
            raise Unsupported('composite map key')
        return kv.leaves[0]

    def i_MapUpdate(self, st, frame, ins):
        mv = self.operand(st, frame, ins['args'][0])
        kv = self.operand(st, frame, ins['args'][1])
        vv = self.operand(st, frame, ins['args'][2])
        mref = mv.leaves[0]
        self.safety(st, frame, 'nilmap', ins, mref != 0, 'assignment to entry in nil map')
        self.map_store(st, frame, mv.t, mref, self.key_term(kv), self.scalarize(st, vv))
        return None

    def scalarize(self, st, v):
        if v.ptr is not None:
            r = self.scalar_ptr(st, v.ptr, v.t)
            if r is None:
                raise Unsupported('interior pointer escapes to memory (%s)' % (v.ptr,))
            return Val(v.t, [r])
        return v

    def map_store(self, st, frame, mt, mref, key, vv):
        u, K, V = self.map_parts(mt)
        dn = 'MD|%s' % u
        self.frame_check(st, frame, dn, mref)
        d = st.heap(dn)
        st.heaps[dn] = z3.Store(d, mref, z3.Store(z3.Select(d, mref), key, z3.BoolVal(True)))
        self.written.add(dn)
        for (p, s, tk), leaf in zip(self.m.layout(V), vv.leaves):
            vn = 'MV|%s|%s|%s' % (u, p, s)
            h = st.heap(vn)
            st.heaps[vn] = z3.Store(h, mref, z3.Store(z3.Select(h, mref), key, leaf))
            self.written.add(vn)

    def i_MakeClosure(self, st, frame, ins):
        binds = [self.operand(st, frame, b) for b in ins.get('bindings') or []]
        c = Closure(ins['callee'], binds)
        cid = 1000 + len(self.code_ids)
        self.code_ids[cid] = c
        return Val(ins['t'], [z3.IntVal(cid)], py=c)

    def func_id(self, name):
        for k, v in self.code_ids.items():
            if v == ('func', name):
                return k
        cid = 1000 + len(self.code_ids)
        self.code_ids[cid] = ('func', name)
        return cid

    def resolve_code(self, st, v):
        """function value -> Closure or ('func', name), via its code id (which survives trips through memory)"""
        if v.py is not None:
            return v.py
        leaf = z3.simplify(v.leaves[0])
        if z3.is_int_value(leaf):
            return self.code_ids.get(leaf.as_long())
        s = self.prune_solver
        s.push()
        try:
            for t in st.pc:
                if not has_quant(t):
                    s.add(t)
            if s.check() != z3.sat:
                return None
            val = s.model().eval(leaf, model_completion=True)
            s.add(leaf != val)
            if s.check() != z3.unsat:
                return None
        finally:
            s.pop()
        return self.code_ids.get(val.as_long()) if z3.is_int_value(val) else None

    def i_Range(self, st, frame, ins):
        x = self.operand(st, frame, ins['args'][0])
        if self.m.kind(x.t) != 'map':
            return Val(ins['t'], [], py=('range', x, None))
        tc = getattr(self.topframe, 'contract', None)
        if tc is not None and 'deterministic' in tc.flags:
            # the result of this function must not depend on the order in which a map is visited: no map is ranged over
            self.oblige(st, frame, 'determinism', self.site_label(frame, 'maprange', ins), z3.BoolVal(False), tuple(tc.props),
                        ins.get('line', 0), 'range over a map in a function declared deterministic')
        self.iter_counter += 1
        iid = self.iter_counter
        u, K, V = self.map_parts(x.t)
        ks = self.m.map_key_sort(x.t)
        dom0 = z3.Select(st.heap('MD|%s' % u), x.leaves[0])
        st.iters[iid] = (z3.K(ks, z3.BoolVal(False)), dom0)
        return Val(ins['t'], [], py=('range', x, iid))

    def i_Next(self, st, frame, ins):
        it = self.operand(st, frame, ins['args'][0])
        _, x, iid = it.py
        ok = self.m.fresh('next_ok', self.m.Bool)
        if ins.get('isstring'):
            idx = self.m.fresh('next_idx', self.m.Int)
            rune = self.m.fresh('next_rune', self.m.Int)
            st.assume(z3.Implies(ok, z3.And(idx >= 0, idx < self.m.slen(x.leaves[0]))))
            return self.tuple_val(ins['t'], [Val('bool', [ok]), Val('int', [idx]), Val('rune', [rune])])
        u, K, V = self.map_parts(x.t)
        ks = self.m.map_key_sort(x.t)
        seen, dom0 = st.iters[iid]
        mref = x.leaves[0]
        # the map must not gain or lose keys while it is being iterated (otherwise the visit set is unspecified)
        domnow = z3.Select(st.heap('MD|%s' % u), mref)
        if not domnow.eq(dom0):
            self.safety(st, frame, 'maprange', ins, domnow == dom0, 'map modified while it is iterated')
        kv = self.m.fresh_val(K, 'next_k')
        key = self.key_term(kv)
        vv, present = self.map_lookup(st, x.t, mref, key)
        st.assume(z3.Implies(ok, z3.And(mref != 0, z3.Select(dom0, key), z3.Not(z3.Select(seen, key)))))
        kq = z3.Const('k!nx', ks)
        st.assume(z3.Implies(z3.Not(ok), z3.Or(mref == 0, forall([kq], z3.Implies(z3.Select(dom0, kq), z3.Select(seen, kq)),
                                                                patterns=[z3.Select(dom0, kq)]))))
        self.assume_refs(st, vv)
        st.iters[iid] = (z3.If(ok, z3.Store(seen, key, z3.BoolVal(True)), seen), dom0)
        return self.tuple_val(ins['t'], [Val('bool', [ok]), kv, vv])

    def loop_iterator(self, frame, h):
        """the map iterator advanced in the header of loop h (range over a map), or None"""
        for ins in frame.fn.blocks[h]['instrs']:
            if ins['op'] == 'Next' and not ins.get('isstring'):
                a = ins['args'][0]
                v = frame.regs.get(a.get('n'))
                if v is not None and isinstance(v.py, tuple) and v.py[0] == 'range' and v.py[2] is not None:
                    return v.py[2]
        return None

    # ------------------------------------------------------------------ calls
    def do_call(self, frame, b, i, prev, st, k, ins):
        """execute the Call at (b,i) and continue with (b,i+1)"""
        def cont(st2, fr2, res):
            if ins.get('reg') and res is not None:
                fr2.regs[ins['reg']] = res
            self.run(fr2, b, i + 1, prev, st2, k)
        a0 = ins['args'][0]
        args_ops = ins['args'][1:]
        try:
            if ins.get('method'):
                recv = self.operand(st, frame, a0)
                args = [self.operand(st, frame, a) for a in args_ops]
                return self.call_invoke(st, frame, ins, recv, ins['method'], args, cont)
            if a0['k'] == 'builtin':
                args = [self.operand(st, frame, a) for a in args_ops]
                res = lib.builtin(self, st, frame, ins, a0['n'], args)
                return cont(st, frame, res)
            args = [self.operand(st, frame, a) for a in args_ops]
            callee = ins.get('callee')
            if callee is not None and a0['k'] == 'reg':
                # go/ssa reports the function of a MakeClosure value as static callee: the bindings matter
                callee = None
            if callee is None:
                fv = self.operand(st, frame, a0)
                code = self.resolve_code(st, fv)
                if isinstance(code, Closure):
                    f2 = self.prog.funcs[code.fn]
                    return self.inline(st, frame, ins, f2, args, code.bindings, cont)
                if isinstance(code, tuple) and code[0] == 'func':
                    callee = code[1]
                else:
                    raise Unsupported('call through unknown function value in %s (line %s)' % (frame.fn.name, ins.get('line')))
            return self.call_static(st, frame, ins, callee, args, cont)
        except Unsupported:
            raise

    def call_static(self, st, frame, ins, callee, args, cont):
        f2 = self.prog.funcs.get(callee)
        if f2 is None or f2.external:
            res = lib.static_call(self, st, frame, ins, callee, args)
            if res is lib.DIVERGES:
                return
            return cont(st, frame, res)
        c = self.contract_of(f2)
        if c is not None and 'inline' not in c.flags and not (self.force_inline and callee in self.force_inline) \
                and not (self.unroll_bound is not None and 'trusted' not in c.flags and c.modifies is not None and self.bounded_follow(callee)):
            return self.call_contract(st, frame, ins, f2, c, args, cont)
        return self.inline(st, frame, ins, f2, args, [], cont)

    force_inline = None
    unroll_bound = None

    def bounded_follow(self, callee):
        """in a bounded check the bodies of the module's functions are followed (library models stay models)"""
        f2 = self.prog.funcs.get(callee)
        return f2 is not None and not f2.external

    bounded_names = None

    def inline(self, st, frame, ins, f2, args, bindings, cont):
        if frame.depth >= self.max_inline:
            raise Unsupported('inlining depth exceeded at %s -> %s (recursive function without contract?)' % (frame.fn.name, f2.name))
        # recursion guard
        d = frame
        fr = Frame(f2)
        fr.depth = frame.depth + 1
        fr.entry = frame.entry
        chain = getattr(frame, 'chain', ())
        if f2.name in self.inline_stack:
            raise Unsupported('recursive call to %s needs a contract' % f2.name)
        for p, a in zip(f2.params, args):
            fr.params[p['n']] = a
        for p, a in zip(f2.freevars, bindings):
            fr.fvs[p['n']] = a
        self.inline_stack.append(f2.name)

        def ret(st2, fr2, results, rins):
            self.inline_stack.pop()
            try:
                if len(results) == 0:
                    res = None
                elif len(results) == 1:
                    res = results[0]
                else:
                    res = self.tuple_val(ins.get('t') or 'tuple', results)
                cont(st2, frame.copy(), res)
            finally:
                self.inline_stack.append(f2.name)
        try:
            self.run(fr, 0, 0, None, st, ret)
        finally:
            self.inline_stack.pop()

    def call_contract(self, st, frame, ins, f2, c, args, cont):
        """modular call: check requires, havoc the callee's frame, assume ensures"""
        callee_frame = Frame(f2)
        args = [self.materialize(st, frame, a) for a in args]
        for p, a in zip(f2.params, args):
            callee_frame.params[p['n']] = a
        env = self.spec.env_for(callee_frame, st, st, None)
        for cl in c.lets:
            env.vars[cl.label] = self.spec.eval(cl.ast, env)
        lets = dict(env.vars)
        site = self.site_label(frame, 'call', ins)
        tc = getattr(self.topframe, 'contract', None)
        for cl in c.requires:
            for lbl, t in self.spec.eval_conjuncts(cl, env):
                cname = self.short(f2).split('.')[-1].split(')')[-1] or self.short(f2)
                if tc is not None and (cname, lbl.split('.')[0]) in tc.assumed_pre:
                    self.trusted.add('ASSUMED precondition [%s] of %s at its call in %s' % (lbl, self.short(f2), self.short(self.topframe.fn)))
                    st.assume(t)
                    continue
                self.oblige(st, frame, 'pre', '%s:%s:%s' % (site, self.short(f2).split('.')[-1].split(')')[-1] or self.short(f2), lbl), t,
                            cl.props, ins.get('line', 0), 'precondition of %s' % self.short(f2))
                st.assume(t)
        # frame of callee inside frame of caller
        mod = None
        if c.modifies is not None:
            mod = []
            for cl in c.modifies:
                mod.extend(self.spec.lvalue_locs(cl.ast, env))
            for (n, r) in mod:
                if isinstance(r, PredLoc):
                    if self.modset is None:
                        continue
                    if any((mn == n or mn == '*') and (mr is None or (isinstance(mr, PredLoc) and mr.key == r.key)) for (mn, mr) in self.modset):
                        continue
                    x = z3.Int('x!fr')
                    alts = [x >= self.entry_alloc]
                    for (mn, mr) in self.modset:
                        if mn == n or mn == '*':
                            alts.append(mr.holds(x) if isinstance(mr, PredLoc) else x == mr)
                    self.oblige(st, frame, 'frame', 'call:%s:%s' % (self.short(f2).split('.')[-1], 'cells'),
                                forall([x], z3.Implies(r.holds(x), z3.Or(*alts))), self.frame_props, ins.get('line', 0),
                                'the callee may write a set of locations the caller may not')
                elif r is not None:
                    self.frame_check(st, frame, n, r)
                elif self.modset is not None and not any((mn == n or mn == '*') and mr is None for (mn, mr) in self.modset):
                    self.oblige(st, frame, 'frame', 'call:%s:%s' % (self.short(f2), n[-30:]), z3.BoolVal(False), self.frame_props,
                                ins.get('line', 0), 'callee may write a whole heap the caller may not')
        elif self.modset is not None:
            W0 = [n for n in self.fn_writes(f2) if not n.startswith('?')]
            if W0:
                self.notes.append('callee %s has no modifies clause; caller frame not checked across it' % self.short(f2))
        pre = st.fork()
        W = self.fn_writes(f2)
        if any(n.startswith('?') for n in W):
            note = 'callee %s: imprecise write set %s' % (self.short(f2), sorted(n for n in W if n.startswith('?')))
            if note not in self.notes:
                self.notes.append(note)
        entry_alloc = st.alloc
        for name in sorted(W):
            if name.startswith('?'):
                continue
            self.havoc_heap(st, name, 'call', entry_alloc, mod)
            self.written.add(name)
        na = self.m.fresh('alloc_c', self.m.Int)
        st.assume(na >= st.alloc)
        st.alloc = na
        self.flush_ref_axioms(st)
        # results
        results = []
        for r in f2.results:
            v = self.m.fresh_val(r['t'], 'r_' + f2.short)
            self.assume_refs(st, v)
            self.assume_iface_refs(st, v)
            self.type_invariant(st, v)
            results.append(v)
        env2 = self.spec.env_for(callee_frame, st, pre, results)
        env2.vars.update({k2: v2 for k2, v2 in lets.items() if k2 not in env2.vars})
        if 'functional' in c.flags:
            # the function is deterministic and reads only its declared inputs (checked by the effect
            # scan): its results are by definition the spec functions of its arguments
            self.assume_functional(st, f2, callee_frame, pre, results)
        for cl in c.ensures:
            st.assume(self.spec.eval_bool(cl.ast, env2))
        for cl in c.assumes:
            st.assume(self.spec.eval_bool(cl.ast, env2))
            self.trusted.add('ASSUMED postcondition of %s [%s]: %s' % (self.short(f2), cl.label, cl.text[:140]))
        if 'trusted' in c.flags:
            self.trusted.add('trusted contract: ' + self.short(f2))
        if len(results) == 0:
            res = None
        elif len(results) == 1:
            res = results[0]
        else:
            res = self.tuple_val(ins.get('t') or 'tuple', results)
        cont(st, frame, res)

    def assume_functional(self, st, f2, callee_frame, pre, results):
        from . import specfuns
        env = self.spec.env_for(callee_frame, pre, pre, None)
        if f2.short == 'evaluateExpr':
            stp = callee_frame.params['st']
            e = callee_frame.params['expr']
            v = specfuns.sf_evalOf(self.spec, env, [stp, e])
            er = specfuns.sf_evalErr(self.spec, env, [stp, e])
            st.assume(results[0].leaves[0] == v.leaves[0])
            st.assume(results[1].leaves[0] == er.leaves[0])
            self.trusted.add('functional: evaluateExpr is a deterministic function of the expression and st.ParsedVars (effect scan)')
        else:
            raise Unsupported('functional contract on %s' % f2.name)

    def materialize(self, st, frame, a):
        """an interior pointer passed to a contract call: copy-in (documented approximation)"""
        if a.ptr is not None:
            r = self.scalar_ptr(st, a.ptr, a.t)
            if r is not None:
                return Val(a.t, [r])
            T = self.m.elem(a.t)
            v = self.load(st, a.ptr, T)
            r = self.new_object(st, frame, T, v)
            self.trusted.add('A6 copy-in of interior pointer argument (%s)' % T.rsplit('/', 1)[-1])
            return Val(a.t, [r])
        return a

    def call_invoke(self, st, frame, ins, recv, method, args, cont):
        """interface method call: dispatch over the known implementers"""
        a = recv.leaves[0]
        m = self.m
        self.wf_unfold(st, frame, recv)
        self.safety(st, frame, 'nil', ins, a != m.Any.nil, 'method call on nil interface')
        handled = lib.invoke(self, st, frame, ins, recv, method, args)
        if handled is not lib.NOT_HANDLED:
            return cont(st, frame, handled)
        if method == 'Error' and recv.t == 'error' and not args:
            # the text of an error: a function of the error value (the formatting code is not followed)
            self.trusted.add('error texts: err.Error() is an uninterpreted function of the error value')
            f = m.uf('errtext', m.Any, m.Str)
            r = f(a)
            st.assume(m.slen(r) >= 0)
            return cont(st, frame, Val('string', [r]))
        targets = []
        for c in m.any_types:
            tab = self.prog.methods.get(c) or {}
            if method in tab and m.implements(c, recv.t):
                targets.append((c, tab[method]))
        outcomes = []

        def collect(st3, fr3, res):
            outcomes.append((st3, fr3, res))
        base_len = len(st.pc)
        rt = m.types.get(recv.t) or {}
        excl = self.db.wfexclude.get(rt.get('name', ''), set())
        for (c, fname) in targets:
            cond = m.any_is(c, a)
            if not self.feasible(st, cond):
                continue
            if c.rsplit('.', 1)[-1] in excl and not self.feasible_q(st, cond):
                # a dynamic type the well-formedness predicate rules out: decided with the quantified facts
                # (loop invariants over slices of nodes) that the fast pruning check leaves aside
                continue
            st2 = st.fork()
            st2.assume(cond)
            rv = Val(c, m.any_get(c, a))
            self.assume_refs(st2, rv)
            fr2 = frame.copy()
            if fname in self.inline_stack:
                # an interface embedded in one of its own implementers: cut the recursion
                res = lib.opaque_result(self, st2, ins, 'recursive dispatch %s' % fname.rsplit('/', 1)[-1])
                outcomes.append((st2, fr2, res))
                continue
            self.call_static(st2, fr2, ins, fname, [rv] + args, collect)
        # dynamic types outside the module
        alts = [m.any_is(c, a) for (c, _) in targets]
        rest = z3.Not(z3.Or(*alts)) if alts else z3.BoolVal(True)
        if self.feasible(st, rest):
            st3 = st.fork()
            st3.assume(rest)
            res = lib.opaque_result(self, st3, ins, 'invoke:%s.%s' % (recv.t.rsplit('/', 1)[-1], method))
            outcomes.append((st3, frame.copy(), res))
        merged = self.merge_outcomes(st, frame, outcomes, base_len)
        if merged is not None:
            st4, res = merged
            return cont(st4, frame, res)
        for (st3, fr3, res) in outcomes:
            cont(st3, fr3, res)

    def merge_outcomes(self, st, frame, outcomes, base_len):
        """join the outcomes of a dynamic dispatch into one state: results, heaps and the allocation
        counter become if-then-else terms over the path conditions of the outcomes"""
        if len(outcomes) <= 1:
            return None
        if len(outcomes) > 40:
            return None
        for (st3, fr3, res) in outcomes:
            if res is not None and (res.ptr is not None or (res.py is not None and not isinstance(res.py, list))):
                return None
            if st3.gen != st.gen:
                return None
        sels = []
        for (st3, fr3, res) in outcomes:
            extra = st3.pc[base_len:]
            if not extra:
                sels.append(z3.BoolVal(True))
            elif len(extra) == 1:
                sels.append(extra[0])
            else:
                sels.append(z3.And(*extra))
        st4 = st.fork()
        st4.assume(z3.Or(*sels))
        # allocation counter
        if any(not o[0].alloc.eq(st.alloc) for o in outcomes):
            al = outcomes[-1][0].alloc
            for (st3, fr3, res), sel in list(zip(outcomes, sels))[-2::-1]:
                al = z3.If(sel, st3.alloc, al)
            st4.alloc = al
        # heaps
        names = set()
        for (st3, fr3, res) in outcomes:
            names.update(st3.heaps.keys())
        for k in names:
            vals = []
            differ = False
            for (st3, fr3, res) in outcomes:
                v = st3.heaps.get(k)
                if v is None:
                    v = st.heaps.get(k)
                    if v is None:
                        v = self.base_heap(k, st.gen)
                vals.append(v)
            v0 = vals[0]
            if all(v.eq(v0) for v in vals[1:]):
                st4.heaps[k] = v0
                continue
            h = vals[-1]
            for v, sel in list(zip(vals, sels))[-2::-1]:
                h = z3.If(sel, v, h)
            st4.heaps[k] = h
        r0 = outcomes[-1][2]
        if r0 is None:
            return st4, None
        leaves = list(r0.leaves)
        for (st3, fr3, res), sel in list(zip(outcomes, sels))[-2::-1]:
            if res is None or len(res.leaves) != len(leaves):
                return None
            leaves = [z3.If(sel, a, b) for a, b in zip(res.leaves, leaves)]
        if isinstance(r0.py, list):
            return st4, self.tuple_val(r0.t, self.split_tuple(r0.t, leaves))
        return st4, Val(r0.t, leaves)

    def split_tuple(self, t, leaves):
        out = []
        pos = 0
        for e in self.m.types[t]['elems']:
            n = len(self.m.layout(e))
            out.append(Val(e, leaves[pos:pos + n]))
            pos += n
        return out

    inline_stack = []
    closure_cells = {}
    _cc_keep = []

    # ------------------------------------------------------------------ misc helpers used by lib / specs
    def map_len(self, st, mt, mref):
        u, K, V = self.map_parts(mt)
        ks = self.m.map_key_sort(mt)
        dom = z3.Select(st.heap('MD|%s' % u), mref)
        card = self.m.uf('card_' + str(ks), z3.ArraySort(ks, self.m.Bool), self.m.Int)
        c = card(dom)
        st.assume(c >= 0)
        st.assume((c == 0) == (dom == z3.K(ks, z3.BoolVal(False))))
        return z3.If(mref == 0, z3.IntVal(0), c)

    def extern_contract(self, name):
        return self.db.get('extern', name)

    def call_extern_contract(self, st, frame, ins, name, c, args):
        """call of a function outside the module under an ASSUMED contract (listed in the trusted base)"""
        self.trusted.add('assumed contract: ' + name)
        pseudo = Frame(frame.fn)
        pseudo.params = {}
        for pn, a in zip(c.extern_params, args):
            pseudo.params[pn] = a
        env = self.spec.env_for(pseudo, st, st, None)
        env.extern = True
        site = self.site_label(frame, 'call', ins)
        for cl in c.requires:
            for lbl, t in self.spec.eval_conjuncts(cl, env):
                self.oblige(st, frame, 'pre', '%s:%s:%s' % (site, name.split('.')[-1], lbl), t, cl.props, ins.get('line', 0),
                            'precondition of ' + name)
                st.assume(t)
        pre = st.fork()
        if c.modifies:
            # an ASSUMED frame of external code (e.g. a callback registered earlier runs during the call)
            mod = []
            for cl in c.modifies:
                mod.extend(self.spec.lvalue_locs(cl.ast, env))
            entry_alloc = st.alloc
            for (n, r) in mod:
                if r is not None and not isinstance(r, PredLoc):
                    self.frame_check(st, frame, n, r)
                elif self.modset is not None and not any((mn == n or mn == '*') and mr is None for (mn, mr) in self.modset):
                    self.oblige(st, frame, 'frame', 'call:%s:%s' % (name, n[-30:]), z3.BoolVal(False), self.frame_props,
                                ins.get('line', 0), 'external code may write a whole heap the caller may not')
            for n in sorted({n for (n, r) in mod}):
                self.havoc_heap(st, n, 'call', entry_alloc, mod)
                self.written.add(n)
            na = self.m.fresh('alloc_x', self.m.Int)
            st.assume(na >= st.alloc)
            st.alloc = na
            self.flush_ref_axioms(st)
        if name.startswith('invoke:') and args and lib.is_externpure(self, args[0].t):
            res = lib.pure_value(self, st, ins.get('t'), 'ext_invoke_%s.%s' % (args[0].t.rsplit('/', 1)[-1], name.rsplit('.', 1)[-1]), args)
        elif lib.is_externpure(self, getattr(self, '_extern_full', name)):
            res = lib.pure_value(self, st, ins.get('t'), 'ext_' + name, args)
        else:
            res = lib.opaque_result(self, st, ins, name)
        if res is None:
            results = []
        elif isinstance(res.py, list):
            results = res.py
        else:
            results = [res]
        env2 = self.spec.env_for(pseudo, st, pre, results)
        env2.extern = True
        for cl in c.ensures:
            st.assume(self.spec.eval_bool(cl.ast, env2))
        return res

    def events_add(self, st, kind, args, ins):
        self.events.append((kind, args, ins.get('line', 0), list(st.pc)))

    def exit_paths(self, st, frame, args, ins):
        self.npaths += 1

    def regex_const_axioms(self, consts):
        """the compiled patterns of the module are known texts: on literal strings the match is computed"""
        import re as _re
        out = []
        if not self.regex_used:
            return out
        f = self.m.uf('re_match', self.m.Int, self.m.Str, self.m.Bool)
        for gname, ref in self.regex_used.items():
            pat = self.regex_globals().get(gname)
            if pat is None:
                continue
            try:
                rx = _re.compile(pat)
            except Exception:
                continue
            for text, c in consts:
                out.append(f(ref, c) == z3.BoolVal(rx.search(text) is not None))
        return out

    _sslices = None

    def string_slice_globals(self):
        """{global: [texts]} for the package-level []string variables whose only assignment in the module is, in the
        package initialiser, a slice literal of string constants (read from the SSA of the init functions)"""
        if self._sslices is not None:
            return self._sslices
        found = {}
        stores = {}
        for f in self.prog.funcs.values():
            is_init = f.short == 'init' or f.short.startswith('init')
            for blk in f.blocks:
                allocs, addrs, slices = {}, {}, {}
                for ins in blk['instrs']:
                    op = ins['op']
                    if op == 'Store' and ins['args'][0]['k'] == 'global':
                        g = ins['args'][0]['n']
                        stores[g] = stores.get(g, 0) + 1
                    if not is_init:
                        continue
                    if op == 'Alloc' and ins.get('comment') == 'slicelit' and re.match(r'\*\[\d+\]string$', ins.get('t', '')):
                        allocs[ins['reg']] = {'n': int(re.match(r'\*\[(\d+)\]', ins['t']).group(1)), 'vals': {}}
                    elif op == 'IndexAddr' and ins['args'][0].get('n') in allocs and ins['args'][1]['k'] == 'const':
                        addrs[ins['reg']] = (ins['args'][0]['n'], int(ins['args'][1]['v']))
                    elif op == 'Store' and ins['args'][0]['k'] == 'reg' and ins['args'][0]['n'] in addrs:
                        a, i = addrs[ins['args'][0]['n']]
                        if ins['args'][1]['k'] == 'const' and ins['args'][1].get('t') == 'string':
                            allocs[a]['vals'][i] = ins['args'][1]['v']
                        else:
                            allocs[a]['vals'][i] = None
                    elif op == 'Slice' and ins['args'][0].get('n') in allocs and ins['args'][1]['k'] == 'none' and ins['args'][2]['k'] == 'none':
                        slices[ins['reg']] = ins['args'][0]['n']
                    elif op == 'Store' and ins['args'][0]['k'] == 'global' and ins['args'][1]['k'] == 'reg' and ins['args'][1]['n'] in slices:
                        a = allocs[slices[ins['args'][1]['n']]]
                        vals = [a['vals'].get(i) for i in range(a['n'])]
                        if all(isinstance(v, str) for v in vals):
                            found[ins['args'][0]['n']] = vals
        self._sslices = {g: v for g, v in found.items() if stores.get(g, 0) == 1}
        return self._sslices

    def regex_globals(self):
        if self._regex is None:
            self._regex = {}
            for f in self.prog.funcs.values():
                if f.short != 'init' and not f.short.startswith('init'):
                    continue
                for blk in f.blocks:
                    pend = {}
                    for ins in blk['instrs']:
                        if ins['op'] == 'Call' and ins.get('callee') == 'regexp.MustCompile' and ins['args'][1]['k'] == 'const':
                            pend[ins['reg']] = ins['args'][1]['v']
                        elif ins['op'] == 'Store' and ins['args'][0]['k'] == 'global' and ins['args'][1]['k'] == 'reg' and ins['args'][1]['n'] in pend:
                            self._regex[ins['args'][0]['n']] = pend[ins['args'][1]['n']]
        return self._regex

    _regex = None
    events = []


_HQ = {}
_HQ_KEEP = []


def has_quant(t):
    """does the term contain a forall/exists (lambdas do not count); cached per term"""
    tid = t.get_id()
    r = _HQ.get(tid)
    if r is not None:
        return r
    seen = set()
    stack = [t]
    res = False
    while stack:
        x = stack.pop()
        i = x.get_id()
        if i in seen:
            continue
        seen.add(i)
        c = _HQ.get(i)
        if c is True:
            res = True
            break
        if c is False:
            continue
        if z3.is_quantifier(x):
            if x.is_lambda():
                stack.append(x.body())
                continue
            res = True
            break
        stack.extend(x.children())
    _HQ[tid] = res
    _HQ_KEEP.append(t)
    return res
