"""Concrete replay harnesses (model -> Go test run with -overlay).  Filled in per function."""


def try_replay(prog, name, bad, repo, path):
    return None
