"""Models of Go built-ins and of the library functions the code under contract calls
(math/big, strings, strconv, slices, maps, fmt, regexp, ...).  These are the
assumed library contracts T1/T2 of DESIGN.md; every model actually used in a run is
recorded in ex.trusted."""
import re
import z3

from .model import forall, add0, Val, Ptr, Unsupported

NOT_HANDLED = object()
DIVERGES = object()

BIGINT = 'math/big.Int'
BIGRAT = 'math/big.Rat'


def opaque_result(ex, st, ins, what):
    ex.trusted.add('opaque: ' + what)
    t = ins.get('t')
    if not t or t == '()':
        return None
    has_refs = any(srt == 'Any' or (srt == 'Int' and (ex.m.kind(tk) in ('pointer', 'map', 'slice', 'signature', 'chan')))
                   for (pth, srt, tk) in ex.m.layout(t))
    # objects handed out by code outside the module are not owned by the caller: they are treated like
    # objects that existed before the verified function was entered (never "fresh", never writable
    # unless the modifies clause names them)
    def external(v):
        ex.assume_refs(st, v)
        ex.type_invariant(st, v)
        for (pth, srt, tk), leaf in zip(ex.m.layout(v.t), v.leaves):
            if srt == 'Int' and (ex.m.kind(tk) in ('pointer', 'map') or (ex.m.kind(tk) == 'slice' and pth.endswith('#arr'))):
                st.assume(leaf < ex.entry_alloc)
                if ex.external_bound is not None:
                    st.assume(leaf < ex.external_bound)
        return v
    if ex.m.types[t]['kind'] == 'tuple':
        vals = []
        for e in ex.m.types[t]['elems']:
            vals.append(external(ex.m.fresh_val(e, 'x_' + what.split('.')[-1][:12])))
        return ex.tuple_val(t, vals)
    return external(ex.m.fresh_val(t, 'x_' + what.split('.')[-1][:12]))


# ----------------------------------------------------------------------------- built-ins

def builtin(ex, st, frame, ins, name, args):
    m = ex.m
    if name == 'len':
        x = args[0]
        k = m.kind(x.t)
        if k == 'slice':
            return Val('int', [x.leaves[2]])
        if k == 'map':
            return Val('int', [ex.map_len(st, x.t, x.leaves[0])])
        lay = m.layout(x.t)
        if len(lay) == 1 and lay[0][1] == 'Str':
            return Val('int', [m.slen(x.leaves[0])])
        raise Unsupported('len of ' + x.t)
    if name == 'cap':
        x = args[0]
        c = m.fresh('cap', m.Int)
        st.assume(c >= x.leaves[2])
        return Val('int', [c])
    if name == 'append':
        return do_append(ex, st, frame, ins, args)
    if name == 'delete':
        mv, kv = args
        mt = mv.t
        u, K, V = ex.map_parts(mt)
        dn = 'MD|%s' % u
        key = ex.key_term(kv)
        mref = mv.leaves[0]
        # delete on nil map is a no-op
        ex.frame_check(st, frame, dn, mref)
        d = st.heap(dn)
        st.heaps[dn] = z3.Store(d, mref, z3.Store(z3.Select(d, mref), key, z3.BoolVal(False)))
        ex.written.add(dn)
        return None
    if name in ('print', 'println'):
        return None
    if name == 'ssa:wrapnilchk':
        x = args[0]
        p = ex.ptr_of(x)
        ex.nil_check(st, frame, ins, p)
        return x
    if name in ('min', 'max'):
        a, b = args[0].leaves[0], args[1].leaves[0]
        r = z3.If(a <= b, a, b) if name == 'min' else z3.If(a >= b, a, b)
        return Val(ins['t'], [r])
    if name == 'copy':
        return opaque_result(ex, st, ins, 'builtin copy')
    raise Unsupported('builtin ' + name)


def do_append(ex, st, frame, ins, args):
    """append(s, elems...) where SSA passes the variadic part as a slice.
    Assumption A2: append always copies into a fresh backing array."""
    m = ex.m
    s, more = args
    rt = ins['t']
    E = m.elem(rt)
    arr, off, ln = s.leaves
    if m.kind(more.t) != 'slice':
        # append([]byte, string...)
        return opaque_result(ex, st, ins, 'append string bytes')
    arr2, off2, ln2 = more.leaves
    na = ex.alloc_ref(st)
    lay = m.layout(E)
    ln2s = z3.simplify(ln2)
    n_more = ln2s.as_long() if z3.is_int_value(ln2s) else None
    off_s = z3.simplify(off)
    for (p, srt, tk) in lay:
        name = ex.aname(E, p, srt)
        ex.written.add(name)
        h = st.heap(name)
        src = z3.Select(h, arr)
        if z3.is_int_value(off_s) and off_s.as_long() == 0 and n_more is not None and n_more <= 8:
            cur = src
            for j in range(n_more):
                cur = z3.Store(cur, ln + j, z3.Select(z3.Select(h, arr2), add0(off2, j)))
            st.heaps[name] = z3.Store(h, na, cur)
        else:
            new = m.fresh('app', src.sort())
            i = z3.Int('i!app')
            st.assume(forall([i], z3.Implies(z3.And(0 <= i, i < ln), z3.Select(new, i) == z3.Select(src, add0(off, i))),
                                patterns=[z3.Select(new, i)]))
            src2 = z3.Select(h, arr2)
            # second part, indexed by the position in the result (a pattern without arithmetic)
            st.assume(forall([i], z3.Implies(z3.And(ln <= i, i < ln + ln2), z3.Select(new, i) == z3.Select(src2, add0(off2, i - ln))),
                                patterns=[z3.Select(new, i)]))
            st.heaps[name] = z3.Store(h, na, new)
    return Val(rt, [na, z3.IntVal(0), z3.simplify(ln + ln2)])


# ----------------------------------------------------------------------------- helpers for big numbers

def bi_ptr(ex, st, frame, ins, v):
    p = ex.ptr_of(v)
    ex.nil_check(st, frame, ins, p)
    return p


def bi_read(ex, st, frame, ins, v, sort='Int'):
    p = bi_ptr(ex, st, frame, ins, v)
    return ex.rd_leaf(st, p, '', sort)


def bi_write(ex, st, frame, ins, v, term, sort='Int'):
    p = bi_ptr(ex, st, frame, ins, v)
    ex.wr_leaf(st, frame, p, '', sort, term)


def new_big(ex, st, frame, T, term):
    r = ex.new_object(st, frame, T, Val(T, [term]))
    return Val('*' + T, [r])


def sign(t, zero=0):
    return z3.If(t < zero, z3.IntVal(-1), z3.If(t == zero, z3.IntVal(0), z3.IntVal(1)))


def cmp3(a, b):
    return z3.If(a < b, z3.IntVal(-1), z3.If(a == b, z3.IntVal(0), z3.IntVal(1)))


def static_writes(ex, callee, ins, fn=None):
    W = set()
    if callee.startswith('(*math/big.Int).') or callee.startswith('(*math/big.Rat).'):
        meth = callee.split('.')[-1]
        israt = '.Rat).' in callee
        readonly = ('Cmp', 'Sign', 'String', 'Int64', 'IsInt64', 'BitLen', 'Text', 'Uint64', 'IsUint64', 'CmpAbs', 'Bit',
                    'ProbablyPrime', 'FloatString', 'IsInt', 'RatString', 'Float64')
        if israt and meth in ('Num', 'Denom'):
            W.add('H|bigint||Int')
        elif meth not in readonly:
            recv = ins['args'][1]
            if fn is not None:
                W |= ex.addr_heaps(fn, recv)
            else:
                W |= ex.pointee_heaps(ex.m.elem(recv['t']), True)
    elif callee in ('math/big.NewInt',):
        W.add('H|bigint||Int')
    elif callee in ('math/big.NewRat',):
        W.add('H|bigrat||Real')
    elif callee.startswith('slices.Reverse') or callee.startswith('sort.Slice') or callee.startswith('slices.Sort'):
        a = ins['args'][1]
        if ex.m.kind(a['t']) == 'slice':
            E = ex.m.elem(a['t'])
            W |= {ex.aname(E, p, s) for (p, s, tk) in ex.m.layout(E)}
    elif callee.startswith('strings.Split') or callee.startswith('strings.Fields') or callee.startswith('(*regexp.Regexp).FindStringSubmatch'):
        W.add(ex.aname('string', '', 'Str'))
    elif callee.startswith('golang.org/x/exp/maps.Keys') or callee.startswith('maps.Keys'):
        t = ins.get('t')
        if t and ex.m.kind(t) == 'slice':
            E = ex.m.elem(t)
            W |= {ex.aname(E, p, s) for (p, s, tk) in ex.m.layout(E)}
    elif callee.startswith('encoding/json.Unmarshal'):
        # json.Unmarshal(data, &x): the target arrives boxed; its type is that of the value boxed just before
        T = None
        if fn is not None and len(ins['args']) >= 3 and ins['args'][2]['k'] == 'reg':
            d = fn.defs().get(ins['args'][2]['n'])
            if d is not None and d[2]['op'] == 'MakeInterface' and ex.m.kind(d[2]['args'][0]['t']) == 'pointer':
                T = ex.m.elem(d[2]['args'][0]['t'])
        if T is not None:
            W |= {ex.hname(T, p2, s2) for (p2, s2, tk) in ex.m.layout(T)}
        else:
            W |= {'?json'}
    return W


def unmarshal_heaps(ex, a):
    # json.Unmarshal(data, &x): x arrives boxed in an interface; statically we only know `any`
    return {'?json'}


# ----------------------------------------------------------------------------- static library calls

def static_call(ex, st, frame, ins, callee, args):
    m = ex.m
    tc = getattr(ex.topframe, 'contract', None)
    if tc is not None and tc.calls is not None and not any(callee == c or callee.startswith(c + '[') or short_callee(callee) == c for c in tc.calls):
        # `calls`: the library functions this function may use (an effect contract); anything else is a violation
        ex.oblige(st, frame, 'calls', ex.site_label(frame, 'libcall', ins), z3.BoolVal(False), tuple(tc.props), ins.get('line', 0),
                  'call of %s, which the contract does not list' % callee)
    h = TABLE.get(callee)
    if h is None:
        for pat, hh in PREFIX_TABLE:
            if callee.startswith(pat):
                h = hh
                break
    if h is not None:
        ex.trusted.add('library contract: ' + re.sub(r'\[.*\]', '[...]', callee))
        return h(ex, st, frame, ins, args)
    c = ex.extern_contract(callee) or ex.extern_contract(short_callee(callee))
    if c is not None:
        ex._extern_full = callee
        if callee.startswith('(*') and args and is_externpure(ex, callee):
            ex.nil_check(st, frame, ins, ex.ptr_of(args[0]))
        return ex.call_extern_contract(st, frame, ins, short_callee(callee), c, args)
    if is_externpure(ex, callee):
        if callee.startswith('(*') and args:
            # a method with pointer receiver of a type outside the module: dereferences its receiver
            ex.nil_check(st, frame, ins, ex.ptr_of(args[0]))
        return pure_value(ex, st, ins.get('t'), 'ext_' + short_callee(callee), args)
    return opaque_result(ex, st, ins, re.sub(r'\[.*\]', '[...]', callee))


def short_callee(callee):
    """(*github.com/x/y/antlr.FooContext).Bar -> (*antlr.FooContext).Bar"""
    return re.sub(r'[A-Za-z0-9_.\-]+(?:/[A-Za-z0-9_.\-]+)*/([A-Za-z0-9_\-]+)\.', r'\1.', callee)


def is_externpure(ex, name):
    return any(p in name for p in ex.db.externpure)


def pure_value(ex, st, t, key, args):
    """result of a deterministic, side-effect free external function: uninterpreted functions of the arguments"""
    m = ex.m
    ex.trusted.add('externpure: ' + key)
    if not t or t == '()':
        return None
    terms = []
    sorts = []
    # a method of a parse-tree type: one function per method NAME over the dynamic receiver, so that a call through an
    # interface and a call on the concrete pointer (after a type switch) denote the same value
    mm = re.match(r'ext_invoke_[^ ]*\.([A-Za-z0-9_]+)$', key) or re.match(r'ext_\(\*[^)]*\)\.([A-Za-z0-9_]+)$', key)
    if mm and args:
        r0 = args[0]
        canon = None
        if m.kind(r0.t) == 'interface':
            canon = r0.leaves[0]
        elif m.kind(r0.t) == 'pointer' and r0.t in m.any_index and (r0.ptr is None or (r0.ptr.kind == 'obj' and r0.ptr.path == '')):
            canon = m.any_make(r0.t, [r0.ptr.ref if r0.ptr is not None else r0.leaves[0]])
        elif m.kind(r0.t) == 'pointer' and r0.ptr is not None and r0.ptr.kind == 'obj' and r0.ptr.path and r0.ptr.idx is None:
            # a promoted method called on the embedded field of an object: the call o.M() of the enclosing object,
            # when (*Outer).M is that very method (no override on the way)
            outer = m.types.get(r0.ptr.T) or {}
            decl = (outer.get('promoted') or {}).get(mm.group(1))
            recv_t = re.match(r'ext_\(\*([^)]*)\)', key)
            pk = '*' + r0.ptr.T
            if decl and recv_t and decl.lstrip('*').rsplit('/', 1)[-1] == recv_t.group(1) and pk in m.any_index:
                canon = m.any_make(pk, [r0.ptr.ref])
        if canon is not None:
            key = 'ext_m_%s:%s' % (mm.group(1), str(t).rsplit('/', 1)[-1])
            terms.append(canon)
            sorts.append(canon.sort())
            args = args[1:]
    for a in args:
        if a.ptr is not None and not (a.ptr.kind == 'obj' and a.ptr.path == ''):
            # an interior pointer (e.g. the embedded base context of a generated context type): identified by
            # the object it points into and the path
            key += '@%s.%s' % (str(a.ptr.T).rsplit('/', 1)[-1], a.ptr.path)
            terms.append(a.ptr.ref)
            sorts.append(a.ptr.ref.sort())
            if a.ptr.idx is not None:
                terms.append(a.ptr.idx)
                sorts.append(a.ptr.idx.sort())
            continue
        if a.ptr is not None:
            terms.append(a.ptr.ref)
            sorts.append(a.ptr.ref.sort())
            continue
        for l in a.leaves:
            terms.append(l)
            sorts.append(l.sort())

    def one(tk, tag):
        leaves = []
        for i, (pth, srt, tk2) in enumerate(m.layout(tk)):
            f = m.uf('%s%s#%d' % (key, tag, i), *(sorts + [m.sort(srt)]))
            leaf = f(*terms) if terms else f()
            if pth.endswith('#off'):
                leaf = z3.IntVal(0)
            leaves.append(leaf)
        v = Val(tk, leaves)
        for (pth, srt, tk2), leaf in zip(m.layout(tk), v.leaves):
            if srt == 'Int':
                k = m.kind(tk2)
                if k in ('pointer', 'map') or (k == 'slice' and pth.endswith('#arr')):
                    st.assume(z3.And(leaf >= 0, leaf < ex.entry_alloc))
                elif k == 'slice' and pth.endswith('#len'):
                    st.assume(leaf >= 0)
            if srt == 'Str':
                st.assume(m.slen(leaf) >= 0)
        ex.type_invariant(st, v)
        if m.kind(tk) == 'slice' and is_externpure(ex, m.elem(tk)) and m.kind(m.elem(tk)) in ('interface', 'pointer'):
            # T3: the list accessors of the parse tree return the children of the wanted type, none of them nil
            E = m.elem(tk)
            lay = m.layout(E)
            nm = ex.aname(E, lay[0][0], lay[0][1])
            i = z3.Int('tl!i')
            cell = st.heap(nm)[v.leaves[0]][i]
            nil = m.Any.nil if lay[0][1] == 'Any' else z3.IntVal(0)
            st.assume(forall([i], z3.Implies(z3.And(i >= 0, i < v.leaves[2]), cell != nil), [cell]))
            ex.trusted.add('T3: list accessors of the parse tree return no nil element')
        for idx, (pth, srt, tk2) in enumerate(m.layout(tk)):
            if pth.endswith('#arr') and idx + 2 < len(v.leaves):
                st.assume(z3.Implies(v.leaves[idx] == 0, v.leaves[idx + 2] == 0))
        return v
    if m.types[t]['kind'] == 'tuple':
        vals = [one(e, '.%d' % i) for i, e in enumerate(m.types[t]['elems'])]
        return ex.tuple_val(t, vals)
    return one(t, '')


def _int_binop(f):
    def h(ex, st, frame, ins, args):
        z, x, y = args
        a = bi_read(ex, st, frame, ins, x)
        b = bi_read(ex, st, frame, ins, y)
        bi_write(ex, st, frame, ins, z, f(a, b))
        return z
    return h


def big_NewInt(ex, st, frame, ins, args):
    return new_big(ex, st, frame, BIGINT, args[0].leaves[0])


def big_Int_Set(ex, st, frame, ins, args):
    z, x = args
    bi_write(ex, st, frame, ins, z, bi_read(ex, st, frame, ins, x))
    return z


def big_Int_Neg(ex, st, frame, ins, args):
    z, x = args
    bi_write(ex, st, frame, ins, z, -bi_read(ex, st, frame, ins, x))
    return z


def big_Int_Abs(ex, st, frame, ins, args):
    z, x = args
    a = bi_read(ex, st, frame, ins, x)
    bi_write(ex, st, frame, ins, z, z3.If(a < 0, -a, a))
    return z


def big_Int_Cmp(ex, st, frame, ins, args):
    x, y = args
    return Val('int', [cmp3(bi_read(ex, st, frame, ins, x), bi_read(ex, st, frame, ins, y))])


def big_Int_Sign(ex, st, frame, ins, args):
    return Val('int', [sign(bi_read(ex, st, frame, ins, args[0]))])


def big_Int_SetInt64(ex, st, frame, ins, args):
    z, n = args
    bi_write(ex, st, frame, ins, z, n.leaves[0])
    return z


def big_Int_Int64(ex, st, frame, ins, args):
    a = bi_read(ex, st, frame, ins, args[0])
    w = ex.m.uf('wrap_int64', ex.m.Int, ex.m.Int)
    lo, hi = -(1 << 63), (1 << 63) - 1
    st.assume(z3.And(w(a) >= lo, w(a) <= hi))
    return Val(ins['t'], [z3.If(z3.And(a >= lo, a <= hi), a, w(a))])


def big_Int_IsInt64(ex, st, frame, ins, args):
    a = bi_read(ex, st, frame, ins, args[0])
    return Val('bool', [z3.And(a >= -(1 << 63), a <= (1 << 63) - 1)])


def big_Int_BitLen(ex, st, frame, ins, args):
    a = bi_read(ex, st, frame, ins, args[0])
    f = ex.m.uf('bitlen', ex.m.Int, ex.m.Int)
    st.assume(f(a) >= 0)
    st.assume((f(a) <= 64) == z3.And(a < (1 << 64), a > -(1 << 64)))
    st.assume((f(a) == 0) == (a == 0))
    return Val('int', [f(a)])


def big_Int_String(ex, st, frame, ins, args):
    a = bi_read(ex, st, frame, ins, args[0])
    f = ex.m.uf('decstr', ex.m.Int, ex.m.Str)
    return Val('string', [f(a)])


def big_Int_SetString(ex, st, frame, ins, args):
    z, s, base = args
    m = ex.m
    okf = m.uf('isnumeral', m.Str, m.Int, m.Bool)
    valf = m.uf('numval', m.Str, m.Int, m.Int)
    ok = okf(s.leaves[0], base.leaves[0])
    p = bi_ptr(ex, st, frame, ins, z)
    old = ex.rd_leaf(st, p, '', 'Int')
    # on failure the value of z is undefined
    und = m.fresh('undef', m.Int)
    ex.wr_leaf(st, frame, p, '', 'Int', z3.If(ok, valf(s.leaves[0], base.leaves[0]), und))
    # decstr/numval round trip (T1)
    zr = ex.scalar_ptr(st, p, z.t)
    if zr is None:
        raise Unsupported('SetString on interior pointer')
    res = Val(z.t, [z3.If(ok, zr, z3.IntVal(0))])
    return ex.tuple_val(ins['t'], [res, Val('bool', [ok])])


def big_Int_Div(ex, st, frame, ins, args):
    z, x, y = args
    a = bi_read(ex, st, frame, ins, x)
    b = bi_read(ex, st, frame, ins, y)
    ex.safety(st, frame, 'libpre', ins, b != 0, 'big.Int.Div: division by zero')
    bi_write(ex, st, frame, ins, z, a / b)  # SMT-LIB div is Euclidean, as is big.Int.Div
    return z


def big_Int_Mod(ex, st, frame, ins, args):
    z, x, y = args
    a = bi_read(ex, st, frame, ins, x)
    b = bi_read(ex, st, frame, ins, y)
    ex.safety(st, frame, 'libpre', ins, b != 0, 'big.Int.Mod: division by zero')
    bi_write(ex, st, frame, ins, z, a % b)
    return z


def big_Int_Quo(ex, st, frame, ins, args):
    z, x, y = args
    a = bi_read(ex, st, frame, ins, x)
    b = bi_read(ex, st, frame, ins, y)
    ex.safety(st, frame, 'libpre', ins, b != 0, 'big.Int.Quo: division by zero')
    q = ex.m.uf('truncdiv', ex.m.Int, ex.m.Int, ex.m.Int)
    bi_write(ex, st, frame, ins, z, z3.If(z3.And(a >= 0, b > 0), a / b, q(a, b)))
    return z


def big_Int_Exp(ex, st, frame, ins, args):
    z, x, y, mm = args
    a = bi_read(ex, st, frame, ins, x)
    b = bi_read(ex, st, frame, ins, y)
    f = ex.m.uf('bigexp', ex.m.Int, ex.m.Int, ex.m.Int)
    r = z3.If(mm.leaves[0] == 0, f(a, b), ex.m.fresh('modexp', ex.m.Int))
    # pow10 facts used by the percentage parser: 10^k > 0
    st.assume(z3.Implies(z3.And(a > 0, b >= 0), r > 0))
    bi_write(ex, st, frame, ins, z, r)
    return z


# ---- big.Rat

def rat_read(ex, st, frame, ins, v):
    return bi_read(ex, st, frame, ins, v, 'Real')


def rat_write(ex, st, frame, ins, v, t):
    bi_write(ex, st, frame, ins, v, t, 'Real')


def fraction(ex, st, n, d):
    """the rational n/d.  Exact for literal operands; otherwise an uninterpreted value with the linear
    facts the proofs use (division by a symbolic denominator makes every query nonlinear)"""
    ns, ds = z3.simplify(n), z3.simplify(d)
    if z3.is_int_value(ns) and z3.is_int_value(ds) and ds.as_long() != 0:
        return z3.RealVal(ns.as_long()) / z3.RealVal(ds.as_long())
    m = ex.m
    f = m.uf('fraction', m.Int, m.Int, m.Real)
    q = f(n, d)
    st.assume(z3.Implies(z3.And(n >= 0, d > 0), q >= 0))
    st.assume(z3.Implies(z3.And(n <= 0, d > 0), q <= 0))
    st.assume(z3.Implies(n == 0, q == 0))
    st.assume(z3.Implies(n == d, q == 1))
    st.assume(z3.Implies(d == 1, q == z3.ToReal(n)))
    st.assume(z3.Implies(z3.And(d > 0, n <= d), q <= 1))
    st.assume(z3.Implies(z3.And(d > 0, n > d), q > 1))
    st.assume(z3.Implies(z3.And(d > 0, n < d), q < 1))
    ex.trusted.add('fraction(n, d): symbolic quotients are uninterpreted with sign/order facts (exact for literals)')
    return q


def big_NewRat(ex, st, frame, ins, args):
    a, b = args[0].leaves[0], args[1].leaves[0]
    ex.safety(st, frame, 'libpre', ins, b != 0, 'big.NewRat: zero denominator')
    return new_big(ex, st, frame, BIGRAT, fraction(ex, st, a, b))


def big_Rat_SetFrac(ex, st, frame, ins, args):
    z, a, b = args
    x = bi_read(ex, st, frame, ins, a)
    y = bi_read(ex, st, frame, ins, b)
    ex.safety(st, frame, 'libpre', ins, y != 0, 'big.Rat.SetFrac: zero denominator')
    rat_write(ex, st, frame, ins, z, fraction(ex, st, x, y))
    return z


def big_Rat_SetInt(ex, st, frame, ins, args):
    z, a = args
    rat_write(ex, st, frame, ins, z, z3.ToReal(bi_read(ex, st, frame, ins, a)))
    return z


def big_Rat_Set(ex, st, frame, ins, args):
    z, a = args
    rat_write(ex, st, frame, ins, z, rat_read(ex, st, frame, ins, a))
    return z


def _rat_binop(f):
    def h(ex, st, frame, ins, args):
        z, x, y = args
        a = rat_read(ex, st, frame, ins, x)
        b = rat_read(ex, st, frame, ins, y)
        rat_write(ex, st, frame, ins, z, f(a, b))
        return z
    return h


def big_Rat_Quo(ex, st, frame, ins, args):
    z, x, y = args
    a = rat_read(ex, st, frame, ins, x)
    b = rat_read(ex, st, frame, ins, y)
    ex.safety(st, frame, 'libpre', ins, b != 0, 'big.Rat.Quo: division by zero')
    rat_write(ex, st, frame, ins, z, a / b)
    return z


def big_Rat_Cmp(ex, st, frame, ins, args):
    x, y = args
    return Val('int', [cmp3(rat_read(ex, st, frame, ins, x), rat_read(ex, st, frame, ins, y))])


def big_Rat_Sign(ex, st, frame, ins, args):
    return Val('int', [sign(rat_read(ex, st, frame, ins, args[0]), z3.RealVal(0))])


def big_Rat_NumDenom(which):
    def h(ex, st, frame, ins, args):
        m = ex.m
        q = rat_read(ex, st, frame, ins, args[0])
        num = m.uf('ratnum', m.Real, m.Int)
        den = m.uf('ratden', m.Real, m.Int)
        st.assume(den(q) > 0)
        # T1 lemma about rationals in lowest terms: floor(num/den) = floor(q); exact when q is integral
        st.assume(num(q) / den(q) == z3.ToInt(q))
        st.assume(z3.Implies(z3.IsInt(q), z3.And(den(q) == 1, num(q) == z3.ToInt(q))))
        st.assume(sign(num(q)) == sign(q, z3.RealVal(0)))
        return new_big(ex, st, frame, BIGINT, num(q) if which == 'num' else den(q))
    return h


def big_Rat_SetString(ex, st, frame, ins, args):
    z, s = args
    m = ex.m
    okf = m.uf('isratnumeral', m.Str, m.Bool)
    valf = m.uf('ratval', m.Str, m.Real)
    ok = okf(s.leaves[0])
    p = bi_ptr(ex, st, frame, ins, z)
    und = m.fresh('undef', m.Real)
    ex.wr_leaf(st, frame, p, '', 'Real', z3.If(ok, valf(s.leaves[0]), und))
    zr = ex.scalar_ptr(st, p, z.t)
    res = Val(z.t, [z3.If(ok, zr, z3.IntVal(0))])
    return ex.tuple_val(ins['t'], [res, Val('bool', [ok])])


def big_Rat_String(ex, st, frame, ins, args):
    q = rat_read(ex, st, frame, ins, args[0])
    f = ex.m.uf('ratstr', ex.m.Real, ex.m.Str)
    return Val('string', [f(q)])


# ---- strings / strconv / fmt

def fresh_str_slice(ex, st, n_term, tag):
    m = ex.m
    arr = ex.alloc_ref(st)
    name = ex.aname('string', '', 'Str')
    ex.written.add(name)
    content = m.fresh(tag, z3.ArraySort(m.Int, m.Str))
    st.heaps[name] = z3.Store(st.heap(name), arr, content)
    return Val('[]string', [arr, z3.IntVal(0), n_term]), content


def strings_Split(ex, st, frame, ins, args):
    m = ex.m
    s, sep = args[0].leaves[0], args[1].leaves[0]
    n = m.uf('nsplit', m.Str, m.Str, m.Int)
    part = m.uf('splitpart', m.Str, m.Str, m.Int, m.Str)
    st.assume(n(s, sep) >= 1)
    j = z3.Int('j!sp')
    st.assume(forall([j], m.slen(part(s, sep, j)) >= 0, [part(s, sep, j)]))
    arr = ex.alloc_ref(st)
    name = ex.aname('string', '', 'Str')
    ex.written.add(name)
    i = z3.Int('i!sp')
    content = z3.Lambda([i], part(s, sep, i))
    st.heaps[name] = z3.Store(st.heap(name), arr, content)
    return Val(ins['t'], [arr, z3.IntVal(0), n(s, sep)])


def str_uf(name, nargs, ret='Str'):
    def h(ex, st, frame, ins, args):
        m = ex.m
        sorts = []
        terms = []
        for a in args:
            for l in a.leaves:
                sorts.append(l.sort())
                terms.append(l)
        f = m.uf(name, *(sorts + [m.sort(ret)]))
        return Val(ins['t'], [f(*terms)])
    return h


def strings_Repeat(ex, st, frame, ins, args):
    m = ex.m
    s, n = args[0].leaves[0], args[1].leaves[0]
    ex.safety(st, frame, 'libpre', ins, n >= 0, 'strings.Repeat: negative Repeat count')
    f = m.uf('srepeat', m.Str, m.Int, m.Str)
    r = f(s, n)
    st.assume(m.slen(r) >= 0)
    return Val('string', [r])


def strings_TrimSuffix(ex, st, frame, ins, args):
    m = ex.m
    s, suf = args[0].leaves[0], args[1].leaves[0]
    f = m.uf('trimsuffix', m.Str, m.Str, m.Str)
    r = f(s, suf)
    st.assume(z3.And(m.slen(r) >= 0, m.slen(r) <= m.slen(s)))
    return Val('string', [r])


def strings_Cut(ex, st, frame, ins, args):
    m = ex.m
    s, sep = args[0].leaves[0], args[1].leaves[0]
    bf = m.uf('cutbefore', m.Str, m.Str, m.Str)(s, sep)
    af = m.uf('cutafter', m.Str, m.Str, m.Str)(s, sep)
    fd = m.uf('cutfound', m.Str, m.Str, m.Bool)(s, sep)
    st.assume(z3.And(m.slen(bf) >= 0, m.slen(af) >= 0))
    st.assume(z3.If(fd, m.slen(bf) + m.slen(sep) + m.slen(af) == m.slen(s), z3.And(bf == s, m.slen(af) == 0)))
    return ex.tuple_val(ins['t'], [Val('string', [bf]), Val('string', [af]), Val('bool', [fd])])


def json_Unmarshal(ex, st, frame, ins, args):
    """json.Unmarshal(data, &x): x is overwritten with an arbitrary well-typed value (what the bytes decode to is
    not modelled); everything the decoder allocates is new"""
    m = ex.m
    v = z3.simplify(args[1].leaves[0])
    c = None
    if z3.is_app(v) and v.decl().name().startswith('mk') and v.decl().name()[2:].isdigit():
        c = m.any_types[int(v.decl().name()[2:])]
    if c is None or m.kind(c) != 'pointer':
        raise Unsupported('json.Unmarshal into a target whose type is not known statically')
    T = m.elem(c)
    ref = v.arg(0)
    na = m.fresh('alloc_json', m.Int)
    st.assume(na >= st.alloc)
    st.alloc = na
    nv = m.fresh_val(T, 'json')
    ex.assume_refs(st, nv)
    ex.type_invariant(st, nv)
    ex.store(st, frame, Ptr('obj', T, '', ref), nv, T)
    ex.trusted.add('library contract: encoding/json.Unmarshal overwrites its target with an arbitrary value of its type')
    errid = m.fresh('json_err', m.Int)
    isok = m.fresh('json_ok', m.Bool)
    return Val('error', [z3.If(isok, m.Any.nil, m.Any.other(z3.IntVal(2), errid))])


def strings_Index(ex, st, frame, ins, args):
    m = ex.m
    s, sub = args[0].leaves[0], args[1].leaves[0]
    f = m.uf('sindex', m.Str, m.Str, m.Int)
    r = f(s, sub)
    st.assume(z3.And(r >= -1, r + m.slen(sub) <= m.slen(s)))
    return Val('int', [r])


def strconv_Atoi(ex, st, frame, ins, args):
    m = ex.m
    s = args[0].leaves[0]
    okf = m.uf('atoi_ok', m.Str, m.Bool)
    valf = m.uf('atoi_val', m.Str, m.Int)
    lo, hi = -(1 << 63), (1 << 63) - 1
    st.assume(z3.And(valf(s) >= lo, valf(s) <= hi))
    errid = m.fresh('atoi_err', m.Int)
    err = z3.If(okf(s), m.Any.nil, m.Any.other(z3.IntVal(1), errid))
    return ex.tuple_val(ins['t'], [Val('int', [z3.If(okf(s), valf(s), z3.IntVal(0))]), Val('error', [err])])


def strconv_ParseUint(ex, st, frame, ins, args):
    m = ex.m
    s, base, bits = [a.leaves[0] for a in args]
    okf = m.uf('parseuint_ok', m.Str, m.Int, m.Int, m.Bool)
    valf = m.uf('parseuint_val', m.Str, m.Int, m.Int, m.Int)
    v = valf(s, base, bits)
    st.assume(z3.And(v >= 0, v <= (1 << 64) - 1))
    errid = m.fresh('pu_err', m.Int)
    ok = okf(s, base, bits)
    err = z3.If(ok, m.Any.nil, m.Any.other(z3.IntVal(1), errid))
    return ex.tuple_val(ins['t'], [Val('uint64', [v]), Val('error', [err])])


def fmt_Sprintf(ex, st, frame, ins, args):
    m = ex.m
    r = m.fresh('sprintf', m.Str)
    st.assume(m.slen(r) >= 0)
    return Val('string', [r])


def fmt_Printf(ex, st, frame, ins, args):
    """output is not modelled; the arguments of the latest call on the path are kept for the spec function
    printedis(j, e) (the j-th operand of the latest fmt.Printf is the boxed value of e)"""
    m = ex.m
    ex.events_add(st, 'print', args, ins)
    fmtv, rest = args[0], args[1]
    elems = None
    ln = z3.simplify(rest.leaves[2]) if len(rest.leaves) == 3 else None
    if ln is not None and z3.is_int_value(ln) and ln.as_long() <= 16:
        E = m.elem(rest.t)
        arr, off, _ = rest.leaves
        elems = [ex.load(st, Ptr('elem', E, '', arr, add0(off, z3.IntVal(i))), E).leaves[0] for i in range(ln.as_long())]
    st.last_print = (fmtv.leaves[0], elems)
    return opaque_result(ex, st, ins, 'fmt.Printf (result)')


def fmt_Errorf(ex, st, frame, ins, args):
    m = ex.m
    return Val('error', [m.Any.other(z3.IntVal(2), m.fresh('errorf', m.Int))])


def io_event(kind):
    def h(ex, st, frame, ins, args):
        ex.events_add(st, kind, args, ins)
        t = ins.get('t')
        if not t or t == '()':
            return None
        return opaque_result(ex, st, ins, kind)
    return h


def os_Exit(ex, st, frame, ins, args):
    ex.events_add(st, 'exit', args, ins)
    c = ex.extern_contract('os.Exit')
    if c is not None:
        # the conditions under which the program may stop here (checked like a precondition)
        ex.call_extern_contract(st, frame, ins, 'os.Exit', c, args)
    ex.exit_paths(st, frame, args, ins)
    return DIVERGES


def slices_Contains(ex, st, frame, ins, args):
    m = ex.m
    s, x = args
    E = m.elem(s.t)
    lay = m.layout(E)
    if len(lay) != 1:
        return opaque_result(ex, st, ins, 'slices.Contains on composite elements')
    arr, off, ln = s.leaves
    content = z3.Select(st.heap(ex.aname(E, '', lay[0][1])), arr)
    return Val('bool', [contains_term(ex, st, content, off, ln, x.leaves[0])])


def contains_term(ex, st, content, off, ln, x):
    m = ex.m
    i = z3.Int('i!c')
    r = m.fresh('contains', m.Bool)
    wit = m.fresh('cwit', m.Int)
    # r <=> exists i. 0 <= i < ln && content[off+i] == x   (skolemised in one direction)
    st.assume(z3.Implies(r, z3.And(0 <= wit, wit < ln, z3.Select(content, add0(off, wit)) == x)))
    st.assume(z3.Implies(z3.Not(r), forall([i], z3.Implies(z3.And(0 <= i, i < ln), z3.Select(content, add0(off, i)) != x),
                                             patterns=[z3.Select(content, add0(off, i))])))
    return r


def slices_Reverse(ex, st, frame, ins, args):
    m = ex.m
    s = args[0]
    E = m.elem(s.t)
    arr, off, ln = s.leaves
    for (p, srt, tk) in m.layout(E):
        name = ex.aname(E, p, srt)
        ex.frame_check(st, frame, name, arr)
        h = st.heap(name)
        old = z3.Select(h, arr)
        new = m.fresh('rev', old.sort())
        i = z3.Int('i!rev')
        st.assume(forall([i], z3.Implies(z3.And(0 <= i, i < ln), z3.Select(new, add0(off, i)) == z3.Select(old, add0(off, ln - 1 - i))),
                            patterns=[z3.Select(new, add0(off, i))]))
        st.assume(forall([i], z3.Implies(z3.Or(i < off, i >= add0(off, ln)), z3.Select(new, i) == z3.Select(old, i)),
                            patterns=[z3.Select(new, i)]))
        st.heaps[name] = z3.Store(h, arr, new)
        ex.written.add(name)
    return None


def maps_Keys(ex, st, frame, ins, args):
    m = ex.m
    mv = args[0]
    u, K, V = ex.map_parts(mv.t)
    dom = z3.Select(st.heap('MD|%s' % u), mv.leaves[0])
    ks = m.map_key_sort(mv.t)
    lay = m.layout(K)
    arr = ex.alloc_ref(st)
    name = ex.aname(K, '', lay[0][1])
    ex.written.add(name)
    content = m.fresh('keys', z3.ArraySort(m.Int, ks))
    st.heaps[name] = z3.Store(st.heap(name), arr, content)
    n = ex.map_len(st, mv.t, mv.leaves[0])
    i = z3.Int('i!k')
    k = z3.Const('k!k', ks)
    idx = m.fresh('keyidx', z3.ArraySort(ks, m.Int))
    st.assume(forall([i], z3.Implies(z3.And(0 <= i, i < n), z3.And(mv.leaves[0] != 0, z3.Select(dom, z3.Select(content, i)))),
                        patterns=[z3.Select(content, i)]))
    st.assume(forall([k], z3.Implies(z3.And(mv.leaves[0] != 0, z3.Select(dom, k)),
                                        z3.And(0 <= z3.Select(idx, k), z3.Select(idx, k) < n, z3.Select(content, z3.Select(idx, k)) == k)),
                        patterns=[z3.Select(dom, k)]))
    return Val(ins['t'], [arr, z3.IntVal(0), n])


def regexp_FindStringSubmatch(ex, st, frame, ins, args):
    m = ex.m
    re_v, s = args
    ngroups = None
    if isinstance(re_v.py, tuple) and re_v.py[0] == 'globalval':
        pat = ex.regex_globals().get(re_v.py[1])
        if pat is not None:
            ngroups = count_groups(pat)
            ex.trusted.add('regexp pattern of %s has %d capture groups' % (re_v.py[1].rsplit('.', 1)[-1], ngroups))
    matched = m.uf('re_match', m.Int, m.Str, m.Bool)(re_v.leaves[0], s.leaves[0])
    n = z3.IntVal(ngroups + 1) if ngroups is not None else m.fresh('ngroups', m.Int)
    if ngroups is None:
        st.assume(n >= 1)
    arr = ex.alloc_ref(st)
    name = ex.aname('string', '', 'Str')
    ex.written.add(name)
    grp = m.uf('re_group', m.Int, m.Str, m.Int, m.Str)
    i = z3.Int('i!re')
    st.heaps[name] = z3.Store(st.heap(name), arr, z3.Lambda([i], grp(re_v.leaves[0], s.leaves[0], i)))
    return Val(ins['t'], [z3.If(matched, arr, z3.IntVal(0)), z3.IntVal(0), z3.If(matched, n, z3.IntVal(0))])


def regexp_MatchString(ex, st, frame, ins, args):
    m = ex.m
    re_v, s = args
    if isinstance(re_v.py, tuple) and re_v.py[0] == 'globalval':
        ex.regex_used[re_v.py[1]] = re_v.leaves[0]
        ex.trusted.add('regexp %s: matching of literal strings is computed from the pattern text' % re_v.py[1].rsplit('.', 1)[-1])
    return Val('bool', [m.uf('re_match', m.Int, m.Str, m.Bool)(re_v.leaves[0], s.leaves[0])])


def count_groups(pat):
    n = 0
    i = 0
    incls = False
    while i < len(pat):
        c = pat[i]
        if c == '\\':
            i += 2
            continue
        if incls:
            if c == ']':
                incls = False
        elif c == '[':
            incls = True
        elif c == '(':
            if not pat.startswith('(?', i) or pat.startswith('(?P<', i):
                n += 1
        i += 1
    return n


def utf8_RuneCountInString(ex, st, frame, ins, args):
    m = ex.m
    s = args[0].leaves[0]
    st.assume(z3.And(m.srunes(s) >= 0, m.srunes(s) <= m.slen(s)))
    return Val('int', [m.srunes(s)])


def math_Pow10(ex, st, frame, ins, args):
    m = ex.m
    f = m.uf('pow10f', m.Int, m.Real)
    return Val('float64', [f(args[0].leaves[0])])


def context_Background(ex, st, frame, ins, args):
    m = ex.m
    return Val(ins['t'], [m.Any.other(z3.IntVal(3), z3.IntVal(0))])


def sort_Slice(ex, st, frame, ins, args):
    """sort.Slice(x any, less): contents become a permutation: havoc the elements (multiset preservation not modelled)"""
    ex.trusted.add('sort.Slice: result treated as an arbitrary rearrangement')
    return opaque_sort(ex, st, frame, ins, args)


def opaque_sort(ex, st, frame, ins, args):
    return None


TABLE = {
    'math/big.NewInt': big_NewInt,
    '(*math/big.Int).Set': big_Int_Set,
    '(*math/big.Int).Add': _int_binop(lambda a, b: a + b),
    '(*math/big.Int).Sub': _int_binop(lambda a, b: a - b),
    '(*math/big.Int).Mul': _int_binop(lambda a, b: a * b),
    '(*math/big.Int).Neg': big_Int_Neg,
    '(*math/big.Int).Abs': big_Int_Abs,
    '(*math/big.Int).Cmp': big_Int_Cmp,
    '(*math/big.Int).Sign': big_Int_Sign,
    '(*math/big.Int).SetInt64': big_Int_SetInt64,
    '(*math/big.Int).SetUint64': big_Int_SetInt64,
    '(*math/big.Int).Int64': big_Int_Int64,
    '(*math/big.Int).IsInt64': big_Int_IsInt64,
    '(*math/big.Int).BitLen': big_Int_BitLen,
    '(*math/big.Int).String': big_Int_String,
    '(*math/big.Int).SetString': big_Int_SetString,
    '(*math/big.Int).Div': big_Int_Div,
    '(*math/big.Int).Mod': big_Int_Mod,
    '(*math/big.Int).Quo': big_Int_Quo,
    '(*math/big.Int).Exp': big_Int_Exp,
    'math/big.NewRat': big_NewRat,
    '(*math/big.Rat).SetFrac': big_Rat_SetFrac,
    '(*math/big.Rat).SetInt': big_Rat_SetInt,
    '(*math/big.Rat).Set': big_Rat_Set,
    '(*math/big.Rat).Add': _rat_binop(lambda a, b: a + b),
    '(*math/big.Rat).Sub': _rat_binop(lambda a, b: a - b),
    '(*math/big.Rat).Mul': _rat_binop(lambda a, b: a * b),
    '(*math/big.Rat).Quo': big_Rat_Quo,
    '(*math/big.Rat).Cmp': big_Rat_Cmp,
    '(*math/big.Rat).Sign': big_Rat_Sign,
    '(*math/big.Rat).Num': big_Rat_NumDenom('num'),
    '(*math/big.Rat).Denom': big_Rat_NumDenom('den'),
    '(*math/big.Rat).SetString': big_Rat_SetString,
    '(*math/big.Rat).String': big_Rat_String,
    'strings.Split': strings_Split,
    'strings.TrimSuffix': strings_TrimSuffix,
    'strings.TrimSpace': str_uf('trimspace', 1),
    'strings.Replace': str_uf('sreplace', 4),
    'strings.Repeat': strings_Repeat,
    'strings.Index': strings_Index,
    'encoding/json.Unmarshal': json_Unmarshal,
    'strings.Cut': strings_Cut,
    'strconv.Atoi': strconv_Atoi,
    'strconv.ParseUint': strconv_ParseUint,
    'fmt.Sprintf': fmt_Sprintf,
    'fmt.Sprint': fmt_Sprintf,
    'fmt.Errorf': fmt_Errorf,
    'fmt.Printf': fmt_Printf,
    'unicode/utf8.RuneCountInString': utf8_RuneCountInString,
    'math.Pow10': math_Pow10,
    'context.Background': context_Background,
    '(*regexp.Regexp).FindStringSubmatch': regexp_FindStringSubmatch,
    '(*regexp.Regexp).MatchString': regexp_MatchString,
    'os.Exit': os_Exit,
}

PREFIX_TABLE = [
    ('slices.Contains[', slices_Contains),
    ('slices.Reverse[', slices_Reverse),
    ('golang.org/x/exp/maps.Keys[', maps_Keys),
    ('maps.Keys[', maps_Keys),
]


# ----------------------------------------------------------------------------- interface method calls on library types

def invoke_writes(ex, iface_t, method):
    return set()


def invoke(ex, st, frame, ins, recv, method, args):
    m = ex.m
    short = recv.t.rsplit('/', 1)[-1].split('.')[-1]
    for nm in ('invoke:%s.%s' % (recv.t, method), 'invoke:%s.%s' % (short, method)):
        c = ex.extern_contract(nm)
        if c is not None:
            return ex.call_extern_contract(st, frame, ins, nm, c, [recv] + args)
    if is_externpure(ex, recv.t):
        return pure_value(ex, st, ins.get('t'), 'ext_invoke_%s.%s' % (recv.t.rsplit('/', 1)[-1], method), [recv] + args)
    return NOT_HANDLED
