"""Built-in specification functions that need SMT-level definitions:
well-formedness of AST nodes (generated from the type definitions), the value of
an expression as a function of the variables (for functions verified pure),
sequence membership and prefix sums with one-step unfolding."""
import z3

from .model import forall, add0, Val, Ptr


class SFError(Exception):
    pass


def _slice_content(sev, env, s, leaf_path=''):
    m = sev.m
    ex = sev.ex
    E = m.elem(s.t)
    for (p, srt, tk) in m.layout(E):
        if p == leaf_path:
            return z3.Select(env.st.heap(ex.aname(E, p, srt)), s.leaves[0]), srt
    raise SFError('no leaf %r in elements of %s' % (leaf_path, s.t))


def sf_contains(sev, env, args):
    """contains(s, x): x occurs in slice s (elements with a single leaf)"""
    s, x = args
    content, srt = _slice_content(sev, env, s)
    arr, off, ln = s.leaves
    i = z3.Int('i!sc')
    xt = sev.term(x)
    return z3.Exists([i], z3.And(0 <= i, i < ln, z3.Select(content, add0(off, i)) == xt))


# ----------------------------------------------------------------------------- well-formed ASTs

def nullable(sev, T, fname, mode='wf'):
    key = '%s.%s' % (sev.m.types[T].get('name', T), fname)
    if mode == 'ewf':
        # the shape of a tree parsed from ANY text: every child may be missing unless stated otherwise
        return key not in sev.ex.db.ewfnonnull
    return key in sev.ex.db.nullable


def wf_any_fn(sev, mode='wf'):
    m = sev.m
    return m.uf('wf_node' if mode == 'wf' else 'ewf_node', m.Any, m.Bool)


def wf_term(sev, env, v, depth=0, unfold=True, mode='wf'):
    """well-formedness of value v (no unfolding of interface / pointer children: atoms)"""
    m = sev.m
    ex = sev.ex
    k = m.kind(v.t)
    wf = wf_any_fn(sev, mode)
    if k == 'interface':
        a = v.leaves[0]
        impls = m.types[v.t].get('impls') or (m.types[m.under(v.t)].get('impls') or [])
        excl = sev.ex.db.wfexclude.get(m.types[v.t].get('name', ''), set())
        impls = [c for c in impls if c.rsplit('.', 1)[-1] not in excl]
        alts = [m.any_is(c, a) for c in impls if c in m.any_index]
        if not alts:
            return a != m.Any.nil
        t = z3.And(wf(a), z3.Or(*alts))
        if unfold:
            unfold_any(sev, env, v.t, a, impls, mode)
        return t
    if k == 'pointer':
        E = m.elem(v.t)
        ref = sev.term(v)
        if m.is_bigint(E) or m.is_bigrat(E):
            return ref != 0
        if m.kind(E) == 'struct' and v.t in m.any_index:
            a = m.any_make(v.t, [ref])
            if unfold:
                unfold_any(sev, env, None, a, [v.t], mode)
            return z3.And(ref != 0, wf(a))
        if m.kind(E) == 'interface':
            # pointer to an interface cell (e.g. *ValueExpr): the pointee must be well formed
            inner = ex.load(env.st, ex.ptr_of(v))
            if mode == 'ewf':
                return z3.And(ref != 0, z3.Or(inner.leaves[0] == m.Any.nil, wf_term(sev, env, inner, depth + 1, unfold, mode)))
            return z3.And(ref != 0, wf_term(sev, env, inner, depth + 1, unfold, mode))
        return ref != 0
    if k == 'struct':
        return wf_fields(sev, env, v.t, lambda fidx, ft, fname: field_of_val(sev, v, fidx), depth, unfold, mode)
    if k == 'slice':
        E = m.elem(v.t)
        arr, off, ln = v.leaves
        i = z3.Int('i!wf%d' % depth)
        ev = ex.load(env.st, Ptr('elem', E, '', arr, add0(off, i)))
        body = wf_term(sev, env, ev, depth + 1, False, mode)
        if z3.is_true(body):
            return z3.BoolVal(True)
        if mode == 'ewf' and m.kind(E) in ('interface', 'pointer'):
            body = z3.Or(ev.leaves[0] == (m.Any.nil if m.kind(E) == 'interface' else 0), body)
        return forall([i], z3.Implies(z3.And(0 <= i, i < ln), body))
    return z3.BoolVal(True)


def field_of_val(sev, v, fidx):
    a, b, ft, fname = sev.m.field_slice(v.t, fidx)
    return Val(ft, v.leaves[a:b])


def wf_fields(sev, env, T, getfield, depth, unfold=False, mode='wf'):
    m = sev.m
    cs = []
    fields = m.types[m.under(T)].get('fields') or []
    for i, f in enumerate(fields):
        fk = m.kind(f['t'])
        if fk in ('interface', 'pointer', 'struct', 'slice'):
            fv = getfield(i, f['t'], f['n'])
            if fk == 'interface' and not (m.types[f['t']].get('impls') or m.types[m.under(f['t'])].get('impls')):
                continue
            if fk in ('pointer', 'interface') and nullable(sev, T, f['n'], mode):
                inner = wf_term(sev, env, fv, depth + 1, unfold, mode)
                isnil = fv.leaves[0] == (m.Any.nil if fk == 'interface' else 0)
                cs.append(z3.Or(isnil, inner))
            else:
                t = wf_term(sev, env, fv, depth + 1, unfold, mode)
                if not z3.is_true(t):
                    cs.append(t)
    return z3.And(*cs) if cs else z3.BoolVal(True)


def unfold_any(sev, env, iface_t, a, impls, mode='wf'):
    """one-step unfolding of wf_node(a) for the given candidate dynamic types, added to the state"""
    m = sev.m
    ex = sev.ex
    wf = wf_any_fn(sev, mode)
    done = env.live.psums.setdefault(('wfunfold',), [])
    ukey = (a.get_id(), tuple(sorted(impls)), mode)
    if ukey in done:
        return
    done.append(ukey)
    for c in impls:
        if c not in m.any_index:
            continue
        if m.kind(c) != 'pointer':
            continue
        E = m.elem(c)
        if m.kind(E) != 'struct':
            continue
        ref = m.any_get(c, a)[0]
        p = Ptr('obj', E, '', ref)

        def getfield(i, ft, fname, p=p):
            return ex.load(env.st, Ptr('obj', p.T, fname + '.', p.ref))
        body = wf_fields(sev, env, E, getfield, 1, False, mode)
        for cl in (sev.ex.db.wfalso.get(m.types[E].get('name', ''), []) if mode == 'wf' else []):
            e2 = env.bind('self', Val(c, [ref]))
            body = z3.And(body, sev.eval_bool(cl.ast, e2))
        env.live.assume(z3.Implies(z3.And(m.any_is(c, a), wf(a)), z3.And(ref != 0, body)))


def sf_wf(sev, env, args):
    v = args[0]
    if not isinstance(v, Val):
        raise SFError('wf() of a non-value')
    return wf_term(sev, env, v)


def sf_ewf(sev, env, args):
    """ewf(x): x has the shape of a tree the parser can yield for ANY text (children may be missing; no typed nil)"""
    v = args[0]
    if not isinstance(v, Val):
        raise SFError('ewf() of a non-value')
    sev.ex.db.uses_ewf = True
    return wf_term(sev, env, v, mode='ewf')


# ----------------------------------------------------------------------------- pure evaluation of expressions

def _pv_parts(sev, env, st_ptr):
    """(dom, val) arrays of st.ParsedVars in the current state"""
    pv = sev.select(st_ptr, 'ParsedVars', env)
    u, K, V = sev.ex.map_parts(pv.t)
    dom = z3.Select(env.st.heap('MD|%s' % u), pv.leaves[0])
    val = z3.Select(env.st.heap('MV|%s||Any' % u), pv.leaves[0])
    return dom, val


def sf_evalOf(sev, env, args):
    """evalOf(st, e): the value evaluateExpr returns for e under st.ParsedVars (nil on error)"""
    m = sev.m
    stp, e = args
    dom, val = _pv_parts(sev, env, stp)
    f = m.uf('eval_val', m.Any, dom.sort(), val.sort(), m.Any)
    vt = sev.type_key(('id', 'Value'))
    return Val(vt, [f(e.leaves[0], dom, val)])


def sf_evalErr(sev, env, args):
    m = sev.m
    stp, e = args
    dom, val = _pv_parts(sev, env, stp)
    f = m.uf('eval_err', m.Any, dom.sort(), val.sort(), m.Any)
    et = sev.type_key(('id', 'InterpreterError'))
    return Val(et, [f(e.leaves[0], dom, val)])


# ----------------------------------------------------------------------------- prefix sums

def psum_fn(sev):
    m = sev.m
    return m.uf('psum', z3.ArraySort(m.Int, m.Int), m.Int, m.Int)


def _sum_term(sev, env, ps, f, n, origin):
    """ps(f, n) with: one-step unfolding (fuel 1), the non-negativity lemma instance, and extensionality
    instances against the earlier sums of the same origin on this path (targeted, no global axiom)"""
    t = ps(f, n)
    live = env.live
    zero = 0
    u1 = z3.Implies(n <= 0, t == zero)
    u2 = z3.Implies(n > 0, t == ps(f, n - 1) + z3.Select(f, n - 1))
    i = z3.Int('i!ext')
    nonneg = z3.Implies(forall([i], z3.Implies(z3.And(0 <= i, i < n), z3.Select(f, i) >= zero)), t >= zero)
    if env.bound:
        live.assume(forall(list(env.bound), z3.And(u1, u2), patterns=[t]))
        sev.ex.uses_psum = True
        return t
    live.assume(u1)
    live.assume(u2)
    live.assume(nonneg)
    # the same lemma for the prefix the unfolding introduces
    live.assume(z3.Implies(forall([i], z3.Implies(z3.And(0 <= i, i < n - 1), z3.Select(f, i) >= zero)), ps(f, n - 1) >= zero))
    reg = live.psums.setdefault(origin, [])
    key = (f.get_id(), n.get_id())
    if all(k != key for (k, _, _) in reg):
        for (k2, f2, n2) in reg[-6:]:
            if f2.get_id() == f.get_id():
                continue
            for m_ in (n2, n):
                hyp = forall([i], z3.Implies(z3.And(0 <= i, i < m_), z3.Select(f, i) == z3.Select(f2, i)))
                live.assume(z3.Implies(hyp, ps(f, m_) == ps(f2, m_)))
                # equal from m_ on: differences of the sums are preserved (ext-from), both directions of lengths
            lo, hi = n2, n
            hyp2 = forall([i], z3.Implies(z3.And(lo <= i, i < hi), z3.Select(f, i) == z3.Select(f2, i)))
            live.assume(z3.Implies(z3.And(0 <= lo, lo <= hi, hyp2), ps(f, hi) - ps(f2, hi) == ps(f, lo) - ps(f2, lo)))
            hyp3 = forall([i], z3.Implies(z3.And(hi <= i, i < lo), z3.Select(f, i) == z3.Select(f2, i)))
            live.assume(z3.Implies(z3.And(0 <= hi, hi <= lo, hyp3), ps(f, lo) - ps(f2, lo) == ps(f, hi) - ps(f2, hi)))
            # one sequence is the other one reversed (slices.Reverse): same sum
            hypr = forall([i], z3.Implies(z3.And(0 <= i, i < n), z3.Select(f, i) == z3.Select(f2, n - 1 - i)))
            live.assume(z3.Implies(z3.And(n == n2, hypr), ps(f, n) == ps(f2, n)))
            # the two sequences differ at one recently used index k only: the sums differ by f[k] - f2[k]
            for kk in getattr(live, 'recent_idx', ()):
                hyp4 = forall([i], z3.Implies(z3.And(0 <= i, i < n, i != kk), z3.Select(f, i) == z3.Select(f2, i)))
                live.assume(z3.Implies(z3.And(0 <= kk, kk < n, n == n2, hyp4),
                                       ps(f, n) - ps(f2, n) == z3.Select(f, kk) - z3.Select(f2, kk)))
        reg.append((key, f, n))
    sev.ex.uses_psum = True
    return t


def psum(sev, env, f, n, origin='?'):
    """Sum_{i<n} f[i] (integers)"""
    return _sum_term(sev, env, psum_fn(sev), f, n, ('i', origin))


def psum_axioms(sev):
    """no global lemmas: extensionality / non-negativity are instantiated per sum term (see _sum_term)"""
    return []


def rpsum_fn(sev):
    m = sev.m
    return m.uf('rpsum', z3.ArraySort(m.Int, m.Real), m.Int, m.Real)


def rpsum(sev, env, f, n, origin='?'):
    """Sum_{i<n} f[i] (reals)"""
    return _sum_term(sev, env, rpsum_fn(sev), f, n, ('r', origin))


def _rat_array(sev, env, s):
    m = sev.m
    ex = sev.ex
    E = m.elem(s.t)
    arr, off, ln = s.leaves
    refs = z3.Select(env.st.heap(ex.aname(E, '', 'Int')), arr)
    hr = env.st.heap('H|bigrat||Real')
    i = z3.Int('i!sr')
    return refs, hr, i, off


def sf_sumRats(sev, env, args):
    """sumRats(s, n): sum of rat(s[i]) for i < n (s: []*big.Rat)"""
    s, n = args
    refs, hr, i, off = _rat_array(sev, env, s)
    return rpsum(sev, env, z3.Lambda([i], z3.Select(hr, z3.Select(refs, add0(off, i)))), sev.term(n), 'sumRats:' + s.t)


def sf_sumRatsTimes(sev, env, args):
    """sumRatsTimes(s, n, c): sum of rat(s[i]) * c for i < n; equals c * sumRats(s, n) (distributivity lemma)"""
    s, n, c = args
    refs, hr, i, off = _rat_array(sev, env, s)
    ct = sev.term(c)
    if z3.is_int(ct):
        ct = z3.ToReal(ct)
    nt = sev.term(n)
    t = rpsum(sev, env, z3.Lambda([i], z3.Select(hr, z3.Select(refs, add0(off, i))) * ct), nt, 'sumRatsTimes:' + s.t)
    plain = rpsum(sev, env, z3.Lambda([i], z3.Select(hr, z3.Select(refs, add0(off, i)))), nt, 'sumRats:' + s.t)
    # distributivity  sum(q_i * c) = c * sum(q_i), given in the two instances that are used (linear facts):
    lem = z3.And(z3.Implies(plain == 1, t == ct), z3.Implies(plain == 0, t == 0))
    if env.bound:
        env.live.assume(forall(list(env.bound), lem))
    else:
        env.live.assume(lem)
    sev.ex.trusted.add('lemma: multiplication distributes over a finite sum (sumRatsTimes)')
    return t


def _senders_term_array(sev, env, s, name, monleaf='Monetary', nameleaf='Name'):
    """lambda i. ite(s[i].Name == name, val(s[i].Monetary), 0)   (name None: no filter)"""
    m = sev.m
    ex = sev.ex
    E = m.elem(s.t)
    arr, off, ln = s.leaves
    mon = z3.Select(env.st.heap(ex.aname(E, monleaf, 'Int')), arr)
    hi = env.st.heap('H|bigint||Int')
    i = z3.Int('i!sm')
    body = z3.Select(hi, z3.Select(mon, add0(off, i)))
    if name is not None:
        nm = z3.Select(env.st.heap(ex.aname(E, nameleaf, 'Str')), arr)
        body = z3.If(z3.Select(nm, add0(off, i)) == name, body, z3.IntVal(0))
    return z3.Lambda([i], body)


def sf_sumMon(sev, env, args):
    """sumMon(s, n): sum of val(s[i].Monetary) for i < n  (s: []Sender or []Receiver)"""
    s, n = args
    return psum(sev, env, _senders_term_array(sev, env, s, None), sev.term(n), 'sumMon:' + s.t)


def sf_sumMonBy(sev, env, args):
    """sumMonBy(s, n, name): sum of val(s[i].Monetary) for i < n with s[i].Name == name"""
    s, n, name = args
    return psum(sev, env, _senders_term_array(sev, env, s, sev.term(name)), sev.term(n), 'sumMonBy:%s:%s' % (s.t, sev.term(name)))


def sf_sumMonNot(sev, env, args):
    """sumMonNot(s, n, name): sum over the entries whose name differs from name"""
    s, n, name = args
    m = sev.m
    ex = sev.ex
    E = m.elem(s.t)
    arr, off, ln = s.leaves
    mon = z3.Select(env.st.heap(ex.aname(E, 'Monetary', 'Int')), arr)
    nm = z3.Select(env.st.heap(ex.aname(E, 'Name', 'Str')), arr)
    hi = env.st.heap('H|bigint||Int')
    i = z3.Int('i!sm')
    body = z3.If(z3.Select(nm, add0(off, i)) != sev.term(name), z3.Select(hi, z3.Select(mon, add0(off, i))), z3.IntVal(0))
    return psum(sev, env, z3.Lambda([i], body), sev.term(n), 'sumMonNot:%s:%s' % (s.t, sev.term(name)))


def sf_sumVals(sev, env, args):
    """sumVals(s, n): sum of val(s[i]) for i < n (s: []*big.Int)"""
    s, n = args
    m = sev.m
    ex = sev.ex
    E = m.elem(s.t)
    arr, off, ln = s.leaves
    refs = z3.Select(env.st.heap(ex.aname(E, '', 'Int')), arr)
    hi = env.st.heap('H|bigint||Int')
    i = z3.Int('i!sv')
    return psum(sev, env, z3.Lambda([i], z3.Select(hi, z3.Select(refs, add0(off, i)))), sev.term(n), 'sumVals:%s:%s' % (s.t, z3.simplify(arr)))


def sf_sumAmounts(sev, env, args):
    """sumAmounts(p, n): sum of val(p[i].Amount) for i < n (p: []Posting)"""
    s, n = args
    return psum(sev, env, _senders_term_array(sev, env, s, None, monleaf='Amount'), sev.term(n), 'sumAmounts:' + s.t)


# ----------------------------------------------------------------------------- balances requested for a source tree

def sf_leavesPending(sev, env, args):
    """leavesPending(st, src, asset): every account leaf of the source tree `src` whose balance matters
    (plain accounts and bounded overdrafts, except @world) is in the pending balance query for `asset`.
    An uninterpreted predicate over (node, version of the pending set) with its definition by node kind
    added on creation (one step, both directions) and monotonicity instances between versions."""
    m = sev.m
    ex = sev.ex
    stp, src, asset = args
    asset_t = sev.term(asset)
    # version of the pending view in this state
    sd = ex.db.specs.get('pending')
    if sd is None or not sd.view:
        raise SFError('leavesPending needs the view `pending(st, a, c)`')
    a0 = z3.Const('a!lp', m.Str)
    c0 = z3.Const('c!lp', m.Str)
    e2 = env.bind('a!lpv', a0, True).bind('c!lpv', c0, True)
    sev.view_call(sd, [('id', stp_name(sev, e2, stp)), ('id', 'a!lpv'), ('id', 'c!lpv')], e2)
    PF, ver = sev.last_view
    dom, val = _pv_parts(sev, env, stp)
    LP = m.uf('leaves_pending', m.Any, m.Int, m.Str, dom.sort(), val.sort(), m.Bool)
    EV = m.uf('eval_val', m.Any, dom.sort(), val.sort(), m.Any)
    EE = m.uf('eval_err', m.Any, dom.sort(), val.sort(), m.Any)
    node = src.leaves[0]
    t = LP(node, ver, asset_t, dom, val)
    live = env.live
    # monotonicity between versions (lemma: the predicate only asks for membership, so it survives growth)
    reg = live.psums.setdefault(('lpver',), [])
    if all(not v.eq(ver) for (_, v, _) in reg):
        x = z3.Const('x!lp', m.Any)
        s_ = z3.Const('s!lp', m.Str)
        for (_, v1, _) in reg[-3:]:
            for (lo, hi) in ((v1, ver),):
                grows = forall([a0, c0], z3.Implies(PF(lo, a0, c0), PF(hi, a0, c0)), patterns=[PF(lo, a0, c0)])
                live.assume(z3.Implies(grows, forall([x, s_], z3.Implies(LP(x, lo, s_, dom, val), LP(x, hi, s_, dom, val)),
                                                     patterns=[LP(x, lo, s_, dom, val)])))
        reg.append((None, ver, None))
        ex.trusted.add('lemma: leavesPending is monotone in the pending set (induction on the source tree)')
    if env.bound:
        return t
    done = live.psums.setdefault(('lpunfold',), [])
    ukey = (node.get_id(), ver.get_id(), asset_t.get_id())
    if ukey in done:
        return t
    done.append(ukey)
    kind = lambda n: sev.type_key(('un', '*', ('sel', ('id', 'parser'), n)))

    def leaf_ok(e_any):
        v = EV(e_any, dom, val)
        acct = sev.type_key(('id', 'AccountAddress'))
        name = m.any_get(acct, v)[0]
        return z3.Or(EE(e_any, dom, val) != m.Any.nil, z3.Not(m.any_is(acct, v)), name == m.strconst('world'), PF(ver, name, asset_t))

    def field(T, ref, fname):
        return ex.load(env.st, Ptr('obj', T, fname + '.', ref))
    # SourceAccount{ValueExpr}
    k = kind('SourceAccount')
    ref = m.any_get(k, node)[0]
    live.assume(z3.Implies(m.any_is(k, node), t == leaf_ok(field(m.elem(k), ref, 'ValueExpr').leaves[0])))
    # SourceOverdraft{Address, Bounded}
    k = kind('SourceOverdraft')
    ref = m.any_get(k, node)[0]
    bounded = field(m.elem(k), ref, 'Bounded').leaves[0]
    live.assume(z3.Implies(m.any_is(k, node), t == z3.Or(bounded == 0, leaf_ok(field(m.elem(k), ref, 'Address').leaves[0]))))
    # SourceCapped{From}
    k = kind('SourceCapped')
    ref = m.any_get(k, node)[0]
    live.assume(z3.Implies(m.any_is(k, node), t == LP(field(m.elem(k), ref, 'From').leaves[0], ver, asset_t, dom, val)))
    # SourceInorder{Sources}
    k = kind('SourceInorder')
    ref = m.any_get(k, node)[0]
    srcs = field(m.elem(k), ref, 'Sources')
    i = z3.Int('i!lp')
    E = m.elem(srcs.t)
    child = ex.load(env.st, Ptr('elem', E, '', srcs.leaves[0], i)).leaves[0]
    live.assume(z3.Implies(m.any_is(k, node), t == forall([i], z3.Implies(z3.And(0 <= i, i < srcs.leaves[2]), LP(child, ver, asset_t, dom, val)),
                                                          patterns=[LP(child, ver, asset_t, dom, val)])))
    # SourceAllotment{Items[].From}
    k = kind('SourceAllotment')
    ref = m.any_get(k, node)[0]
    items = field(m.elem(k), ref, 'Items')
    E = m.elem(items.t)
    child = ex.load(env.st, Ptr('elem', E, 'From.', items.leaves[0], i)).leaves[0]
    live.assume(z3.Implies(m.any_is(k, node), t == forall([i], z3.Implies(z3.And(0 <= i, i < items.leaves[2]), LP(child, ver, asset_t, dom, val)),
                                                          patterns=[LP(child, ver, asset_t, dom, val)])))
    return t


def stp_name(sev, env, stp):
    """bind the programState pointer under a temporary name so that it can be passed to a view by name"""
    env.vars['st!lp'] = stp
    return 'st!lp'


BUILTINS = {
    'contains': sf_contains,
    'wf': sf_wf,
    'ewf': sf_ewf,
    'evalOf': sf_evalOf,
    'evalErr': sf_evalErr,
    'sumMon': sf_sumMon,
    'sumMonBy': sf_sumMonBy,
    'sumMonNot': sf_sumMonNot,
    'sumVals': sf_sumVals,
    'sumAmounts': sf_sumAmounts,
    'sumRats': sf_sumRats,
    'sumRatsTimes': sf_sumRatsTimes,
    'leavesPending': sf_leavesPending,
}
