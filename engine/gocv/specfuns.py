"""Built-in specification functions that need SMT-level definitions (sequence
membership, sums over sequences, ...)."""
import z3

from .model import Val


def _slice_content(sev, env, s, leaf_path='', sort=None):
    m = sev.m
    ex = sev.ex
    E = m.elem(s.t)
    lay = m.layout(E)
    for (p, srt, tk) in lay:
        if p == leaf_path:
            return z3.Select(env.st.heap(ex.aname(E, p, srt)), s.leaves[0]), srt
    raise KeyError(leaf_path)


def sf_contains(sev, env, args):
    """contains(s, x): x occurs in slice s (elements with a single leaf)"""
    s, x = args
    content, srt = _slice_content(sev, env, s)
    arr, off, ln = s.leaves
    i = z3.Int('i!sc')
    xt = sev.term(x)
    return z3.Exists([i], z3.And(0 <= i, i < ln, z3.Select(content, off + i) == xt))


BUILTINS = {
    'contains': sf_contains,
}
