"""Evaluation of specification expressions over symbolic states."""
import z3

from .model import _pattern_ok as model_pattern_ok, forall, add0, Val, Ptr, Unsupported
from .spec import ParseError


class SpecError(Exception):
    pass


class Env:
    def __init__(self, frame, st, old, results):
        self.frame = frame
        self.st = st
        self.old = old
        self.results = results
        self.vars = {}
        self.loop_head = None
        self.loop_entry = None
        self.bound = ()
        self.point = None   # (block, instruction index) where source-level locals are resolved
        self.live = st      # the state that receives lemma instances / unfoldings (also while evaluating old(...))

    def with_state(self, st):
        e = Env(self.frame, st, self.old, self.results)
        e.live = self.live
        e.point = self.point
        e.loop_iter = getattr(self, 'loop_iter', None)
        e.vars = self.vars
        e.loop_head = self.loop_head
        e.loop_entry = self.loop_entry
        e.bound = self.bound
        return e

    def bind(self, name, v, quantified=False):
        e = Env(self.frame, self.st, self.old, self.results)
        e.vars = dict(self.vars)
        e.vars[name] = v
        e.loop_head = self.loop_head
        e.loop_entry = self.loop_entry
        e.bound = self.bound + ((v,) if quantified else ())
        e.live = self.live
        e.point = self.point
        e.loop_iter = getattr(self, 'loop_iter', None)
        e.outer_iter = getattr(self, 'outer_iter', None)
        e.in_old = getattr(self, 'in_old', False)
        return e


class TypeRef:
    def __init__(self, key):
        self.key = key


# uninterpreted functions of the library models that contracts may name (argument sorts then result sort)
SPEC_UFS = {'isnumeral': 'SIB', 'numval': 'SII', 'nsplit': 'SSI', 'splitpart': 'SSIS', 'trimspace': 'SS', 'trimsuffix': 'SSS',
            'atoi_ok': 'SB', 'atoi_val': 'SI', 'cutbefore': 'SSS', 'cutafter': 'SSS', 'cutfound': 'SSB', 'bigexp': 'III', 'decstr': 'IS', 'ratstr': 'RS'}


class SpecEval:
    def __init__(self, ex):
        self.ex = ex
        self.m = ex.m
        self._typecache = {}

    def env_for(self, frame, st, old, results):
        return Env(frame, st, old, results)

    # ------------------------------------------------------------ coercions
    def term(self, v):
        if isinstance(v, Val):
            if v.ptr is not None:
                r = self.ex.scalar_ptr(None, v.ptr, v.t)
                if r is None:
                    raise SpecError('interior pointer used as a value in a specification')
                return r
            if len(v.leaves) != 1:
                raise SpecError('value of type %s used as a scalar in a specification' % v.t)
            return v.leaves[0]
        if isinstance(v, bool):
            return z3.BoolVal(v)
        if isinstance(v, int):
            return z3.IntVal(v)
        if isinstance(v, str):
            return self.m.strconst(v)
        return v

    def eval_term(self, ast, env):
        return self.term(self.eval(ast, env))

    def eval_bool(self, ast, env):
        t = self.term(self.eval(ast, env))
        if not z3.is_bool(t):
            raise SpecError('boolean expected in specification')
        return t

    def eval_conjuncts(self, clause, env):
        out = []
        for i, a in enumerate(split_conj(clause.ast)):
            t = self.eval_bool(a, env)
            out.append((clause.label if i == 0 else '%s.%d' % (clause.label, i + 1), t))
        return out

    # ------------------------------------------------------------ type names
    def type_key(self, ast):
        """resolve a type expression written in a spec (parser.SourceAccount, *parser.X, Monetary, ...)"""
        if ast[0] == 'str':
            if ast[1] not in self.m.types:
                raise SpecError('unknown type key %r' % ast[1])
            return ast[1]
        txt = type_text(ast)
        if txt in self._typecache:
            return self._typecache[txt]
        stars = 0
        base = txt
        while base.startswith('*'):
            stars += 1
            base = base[1:]
        cands = []
        for k, t in self.m.types.items():
            if t['kind'] != 'named' and t['kind'] != 'basic':
                continue
            if t['kind'] == 'basic':
                if k == base:
                    cands.append(k)
                continue
            pk = t.get('pkg', '')
            parts = pk.split('/') if pk else []
            last = parts[-1] if parts else ''
            if len(parts) > 1 and len(last) > 1 and last[0] == 'v' and last[1:].isdigit():
                last = parts[-2]   # module path with a major version suffix
            short = (last + '.' if pk else '') + t['name']
            if short == base or k == base:
                cands.append(k)
            elif '.' not in base and t['name'] == base:
                cands.append(k)
        if '.' not in base and len(cands) > 1:
            # prefer the package of the function under verification
            pk = self.ex.topframe.fn.pkg
            pref = [c for c in cands if self.m.types[c].get('pkg') == pk]
            if pref:
                cands = pref
        cands = sorted(set(cands))
        if len(cands) != 1:
            raise SpecError('cannot resolve type %r in specification (candidates %s)' % (txt, cands))
        key = cands[0]
        for _ in range(stars):
            key = '*' + key
            if key not in self.m.types:
                # pointer type not in the table: register a synthetic entry
                self.m.types[key] = {'kind': 'pointer', 'elem': key[1:]}
        self._typecache[txt] = key
        return key

    # ------------------------------------------------------------ identifiers
    def lookup(self, name, env):
        if name in env.vars:
            return env.vars[name]
        if name == 'nil':
            return None
        if name == 'true':
            return z3.BoolVal(True)
        if name == 'false':
            return z3.BoolVal(False)
        fr = env.frame
        if env.results is not None:
            rs = env.results
            if name == 'result' and rs:
                return rs[0]
            if name == 'err' and rs and self.m.kind(rs[-1].t) == 'interface':
                return rs[-1]
            if name.startswith('result') and name[6:].isdigit() and int(name[6:]) < len(rs):
                return rs[int(name[6:])]
            if not getattr(env, 'extern', False):
                for r, v in zip(fr.fn.results, rs):
                    if r['n'] == name:
                        return v
        # a variable whose address is taken lives in a cell (Alloc commented with its name): its current
        # value is the content of the cell (for parameters: outside old() only)
        pt = getattr(env, 'point', None)
        if not (getattr(env, 'in_old', False) and (name in fr.params or name in fr.fvs)):
            cells = [ins for ins in fr.fn.cells().get(name, ()) if ins['reg'] in fr.regs]
            if cells:
                ins = sorted(cells, key=lambda x: int(x['reg'][1:]) if x['reg'][1:].isdigit() else 0)[-1]
                v = fr.regs[ins['reg']]
                return self.ex.load(env.st, self.ex.ptr_of(v))
        if name in fr.params:
            return fr.params[name]
        if name in fr.fvs:
            return fr.fvs[name]
        if name == 'iter' and env.loop_head is not None:
            for ins in fr.fn.blocks[env.loop_head]['instrs']:
                if ins['op'] == 'Phi' and ins.get('comment') == 'rangeindex':
                    return fr.regs[ins['reg']].leaves[0] + 1
            raise SpecError('iter used in a loop that is not a range loop')
        # source-level local: the value of the variable at the point where the clause is evaluated
        pt = getattr(env, 'point', None)
        if pt is not None:
            r = fr.fn.reaching_ref(name, pt[0], pt[1])
            if r is not None and r[0]['k'] in ('nil', 'const'):
                # go/ssa records `x := T{}` as a reference to the zero value placed before the allocation:
                # when the variable has exactly one register that is live on this path, that is its value
                regs = [(a2, ad) for (key, a2, ad, blk) in fr.fn.names().get(name, ()) if a2['k'] == 'reg' and a2['n'] in fr.regs]
                if len(regs) == 1:
                    r = regs[0]
            if r is not None:
                a, isaddr = r
                if a['k'] != 'reg' or a['n'] in fr.regs:
                    v = self.ex.operand(env.st, fr, a)
                    if isaddr:
                        return self.ex.load(env.st, self.ex.ptr_of(v))
                    return v
        names = fr.fn.names()
        if name in names:
            cands = names[name]
            # phi of the current loop header first
            best = None
            if env.loop_head is not None:
                for (key, a, isaddr, blk) in cands:
                    if blk == env.loop_head and a['k'] == 'reg':
                        d = fr.fn.defs().get(a['n'])
                        if d and d[2]['op'] == 'Phi':
                            best = (a, isaddr)
            if best is None:
                avail = [(a, isaddr) for (key, a, isaddr, blk) in cands if a['k'] != 'reg' or a['n'] in fr.regs]
                if len(avail) == 1:
                    best = avail[0]
                elif len(avail) > 1:
                    # the latest defined (highest register number) that is available on this path
                    def rk(x):
                        a = x[0]
                        if a['k'] != 'reg':
                            return -1
                        n = a['n'][1:]
                        return int(n) if n.isdigit() else 0
                    best = sorted(avail, key=rk)[-1]
            if best is not None:
                a, isaddr = best
                v = self.ex.operand(env.st, fr, a)
                if isaddr:
                    return self.ex.load(env.st, self.ex.ptr_of(v))
                return v
        # package-level constant
        pk = fr.fn.pkg
        c = self.ex.prog.consts.get(pk + '.' + name)
        if c is not None:
            return self.ex.const_val(c)
        raise SpecError('unknown identifier %r in specification of %s' % (name, fr.fn.name))

    # ------------------------------------------------------------ evaluation
    def eval(self, ast, env):
        k = ast[0]
        if k == 'num':
            return z3.IntVal(ast[1])
        if k == 'str':
            return self.m.strconst(ast[1])
        if k == 'id':
            return self.lookup(ast[1], env)
        if k == 'un':
            op = ast[1]
            if op == '*':
                v = self.eval(ast[2], env)
                return self.deref(v, env)
            x = self.term(self.eval(ast[2], env))
            return z3.Not(x) if op == '!' else -x
        if k == 'bin':
            return self.binop(ast, env)
        if k == 'sel':
            # qualified constant: pkg.Name
            if ast[1][0] == 'id' and ast[1][1] not in env.vars and not self.is_value_name(ast[1][1], env):
                for ck, c in self.ex.prog.consts.items():
                    if ck.endswith('/' + ast[1][1] + '.' + ast[2]) or ck == ast[1][1] + '.' + ast[2]:
                        return self.ex.const_val(c)
                raise SpecError('unknown qualified name %s.%s' % (ast[1][1], ast[2]))
            base = self.eval(ast[1], env)
            return self.select(base, ast[2], env)
        if k == 'idx':
            base = self.eval(ast[1], env)
            idx = self.eval(ast[2], env)
            return self.index(base, idx, env)
        if k == 'call':
            return self.call(ast, env)
        if k == 'slice':
            raise SpecError('slice expressions are not supported in specifications')
        raise SpecError('bad spec ast %r' % (ast,))

    def is_value_name(self, name, env):
        try:
            self.lookup(name, env)
            return True
        except SpecError:
            return False

    def deref(self, v, env):
        if not isinstance(v, Val) or self.m.kind(v.t) != 'pointer':
            raise SpecError('dereference of a non-pointer in specification')
        return self.ex.load(env.st, self.ex.ptr_of(v))

    def select(self, base, fname, env):
        if not isinstance(base, Val):
            raise SpecError('field selection .%s on a non-value' % fname)
        m = self.m
        if m.kind(base.t) == 'pointer':
            p = self.ex.ptr_of(base)
            T = self.ex.pointee_type(p)
            path = self.find_field(T, fname)
            if path is None:
                raise SpecError('no field %s in %s' % (fname, T))
            cur = p
            for comp in path:
                cur = Ptr(cur.kind, cur.T, cur.path + comp + '.', cur.ref, cur.idx)
            v = self.ex.load(env.st, cur)
            return v
        if m.kind(base.t) == 'struct':
            path = self.find_field(base.t, fname)
            if path is None:
                raise SpecError('no field %s in %s' % (fname, base.t))
            cur = base
            for comp in path:
                idx = m.field_index(cur.t, comp)
                a, b, ft, _ = m.field_slice(cur.t, idx)
                cur = Val(ft, cur.leaves[a:b])
            return cur
        raise SpecError('field selection .%s on %s' % (fname, base.t))

    def find_field(self, T, fname, depth=0):
        """path of field names reaching fname (through embedded structs)"""
        m = self.m
        if m.kind(T) != 'struct' or depth > 4:
            return None
        fields = m.types[m.under(T)].get('fields') or []
        for f in fields:
            if f['n'] == fname:
                return [fname]
        for f in fields:
            if f.get('embedded'):
                sub = self.find_field(f['t'], fname, depth + 1)
                if sub is not None:
                    return [f['n']] + sub
        return None

    def index(self, base, idx, env):
        m = self.m
        if not isinstance(base, Val):
            raise SpecError('indexing a non-value')
        k = m.kind(base.t)
        if k == 'slice':
            arr, off, ln = base.leaves
            E = m.elem(base.t)
            p = Ptr("elem", E, "", arr, add0(off, self.term(idx)))
            return self.ex.load(env.st, p)
        if k == 'map':
            key = self.term(idx)
            v, present = self.ex.map_lookup(env.st, base.t, base.leaves[0], key)
            return v
        lay = m.layout(base.t)
        if len(lay) == 1 and lay[0][1] == 'Str':
            return m.sbyte(base.leaves[0], self.term(idx))
        raise SpecError('indexing %s' % base.t)

    def binop(self, ast, env):
        op = ast[1]
        if op in ('&&', '||', '==>', '<==>'):
            a = self.eval_bool(ast[2], env)
            b = self.eval_bool(ast[3], env)
            if op == '&&':
                return z3.And(a, b)
            if op == '||':
                return z3.Or(a, b)
            if op == '==>':
                return z3.Implies(a, b)
            return a == b
        x = self.eval(ast[2], env)
        y = self.eval(ast[3], env)
        if op in ('==', '!='):
            e = self.equal(x, y)
            return e if op == '==' else z3.Not(e)
        a, b = self.term(x), self.term(y)
        if z3.is_int(a) and z3.is_real(b):
            a = z3.ToReal(a)
        if z3.is_real(a) and z3.is_int(b):
            b = z3.ToReal(b)
        if op == '<':
            return a < b
        if op == '<=':
            return a <= b
        if op == '>':
            return a > b
        if op == '>=':
            return a >= b
        if op == '+':
            if a.sort() == self.m.Str:
                return self.m.sconcat(a, b)
            return a + b
        if op == '-':
            return a - b
        if op == '*':
            return a * b
        if op == '/':
            return a / b
        if op == '%':
            return a % b
        raise SpecError('operator ' + op)

    def equal(self, x, y):
        m = self.m
        if x is None and y is None:
            return z3.BoolVal(True)
        if x is None or y is None:
            v = y if x is None else x
            if not isinstance(v, Val):
                raise SpecError('comparison of a non-value with nil')
            k = m.kind(v.t)
            if v.ptr is not None:
                r = self.ex.scalar_ptr(None, v.ptr, v.t)
                return z3.BoolVal(False) if r is None else r == 0
            if k == 'interface':
                return v.leaves[0] == m.Any.nil
            if k in ('pointer', 'map', 'slice', 'signature'):
                return v.leaves[0] == 0
            raise SpecError('comparison of %s with nil' % v.t)
        if isinstance(x, Val) and isinstance(y, Val):
            if m.kind(x.t) == 'slice' and m.kind(y.t) == 'slice':
                # same slice: same array object and same bounds (Go itself only compares slices with nil)
                return z3.And(*[a == b for a, b in zip(x.leaves, y.leaves)])
            return self.ex.val_eq(x, y)
        a, b = self.term(x), self.term(y)
        if z3.is_int(a) and z3.is_real(b):
            a = z3.ToReal(a)
        if z3.is_real(a) and z3.is_int(b):
            b = z3.ToReal(b)
        return a == b

    # ------------------------------------------------------------ calls / built-ins
    def call(self, ast, env):
        f = ast[1]
        args = ast[2]
        m = self.m
        if f[0] == 'sel':
            return self.method_call(f, args, env)
        if f[0] != 'id':
            raise SpecError('only named functions can be called in specifications')
        name = f[1]
        if name == 'old':
            if env.old is None:
                raise SpecError('old() outside a postcondition')
            e2 = env.with_state(env.old)
            e2.in_old = True
            return self.eval(args[0], e2)
        if name == 'atloop':
            return self.eval(args[0], env.with_state(env.loop_entry))
        if name == 'atouter':
            # the value at the beginning of the current iteration of the ENCLOSING loop
            if getattr(env, 'outer_iter', None) is None:
                raise SpecError('atouter() without an enclosing loop step')
            return self.eval(args[0], env.with_state(env.outer_iter))
        if name == 'athead':
            # the value at the beginning of the current iteration (state at the loop head)
            if getattr(env, 'loop_iter', None) is None:
                raise SpecError('athead() outside a loop step')
            return self.eval(args[0], env.with_state(env.loop_iter))
        if name == 'val':
            v = self.eval(args[0], env)
            return self.bigval(v, env, 'Int')
        if name == 'rat':
            v = self.eval(args[0], env)
            return self.bigval(v, env, 'Real')
        if name == 'len':
            v = self.eval(args[0], env)
            return self.length(v, env)
        if name == 'has':
            mv = self.eval(args[0], env)
            key = self.eval_term(args[1], env)
            _, present = self.ex.map_lookup(env.st, mv.t, mv.leaves[0], key)
            return present
        if name == 'typeis':
            v = self.eval(args[0], env)
            tk = self.type_key(args[1])
            if not isinstance(v, Val) or m.kind(v.t) != 'interface':
                raise SpecError('typeis on a non-interface value')
            return m.any_is(tk, v.leaves[0])
        if name == 'asiface':
            # asiface(x, T): the value x (concrete pointer or interface) seen as the interface type T
            v = self.eval(args[0], env)
            tk = self.type_key(args[1])
            if m.kind(v.t) == 'interface':
                return Val(tk, [v.leaves[0]])
            return Val(tk, [m.any_make(v.t, [self.term(v)])])
        if name == 'rangeof':
            # rangeof(v): the Range recorded in the AST node held by the interface value v
            v = self.eval(args[0], env)
            return self.range_of(v, env)
        if name == 'as':
            v = self.eval(args[0], env)
            tk = self.type_key(args[1])
            if not env.bound:
                self.ex.assume_payload_refs(env.live, tk, v.leaves[0])
            return Val(tk, m.any_get(tk, v.leaves[0]))
        if name in ('min', 'max'):
            a = self.eval_term(args[0], env)
            b = self.eval_term(args[1], env)
            return z3.If(a <= b, a, b) if name == 'min' else z3.If(a >= b, a, b)
        if name == 'ite':
            c = self.eval_bool(args[0], env)
            a = self.eval_term(args[1], env)
            b = self.eval_term(args[2], env)
            return z3.If(c, a, b)
        if name == 'forallidx':
            # forall over an index, instantiated only where some sequence is read at that index
            # (patterns: the reads X[i] of the body whose X does not depend on i)
            if args[0][0] != 'id':
                raise SpecError('bound variable expected')
            bv = z3.Int(args[0][1] + '!b')
            e2 = env.bind(args[0][1], bv, True)
            lo = self.eval_term(args[1], e2)
            hi = self.eval_term(args[2], e2)
            body = self.eval_bool(args[3], e2)
            pats = []
            seen = set()

            _mb = {}

            def mentions_bv(t):
                k = t.get_id()
                if k in _mb:
                    return _mb[k]
                if k == bv.get_id():
                    r = True
                elif z3.is_quantifier(t):
                    r = mentions_bv(t.body())
                elif z3.is_app(t):
                    r = any(mentions_bv(c) for c in t.children())
                else:
                    r = False
                _mb[k] = r
                return r

            def walk(t):
                if t.get_id() in seen or not z3.is_app(t):
                    return
                seen.add(t.get_id())
                if t.decl().kind() == z3.Z3_OP_SELECT and t.arg(1).get_id() == bv.get_id() and not mentions_bv(t.arg(0)):
                    pats.append(t)
                for c in t.children():
                    walk(c)
            walk(body)
            # reads through frame overlays (lambdas) reduce to ite: each branch that is a plain read is a pattern
            flat = []

            def branches(t, depth=0):
                if depth > 6:
                    return
                if z3.is_app(t) and t.decl().kind() == z3.Z3_OP_ITE:
                    branches(t.arg(1), depth + 1)
                    branches(t.arg(2), depth + 1)
                elif z3.is_app(t) and t.decl().kind() == z3.Z3_OP_SELECT and mentions_bv(t):
                    flat.append(t)
            for t in pats:
                branches(z3.simplify(t))
            uniq = {}
            for t in flat:
                uniq[t.get_id()] = t
            flat = list(uniq.values())
            body_q = z3.Implies(z3.And(lo <= bv, bv < hi), body)
            flat = [t for t in flat if model_pattern_ok(t)][:8]
            if flat:
                try:
                    return z3.ForAll([bv], body_q, patterns=flat, qid='q_idx_%s' % args[0][1])
                except z3.Z3Exception:
                    pass
            import os as _os
            if _os.environ.get('VERIF_DEBUG_PAT'):
                print('forallidx: no usable pattern among', [str(z3.simplify(t))[:300] for t in pats][:3])
            return forall([bv], body_q)
        if name in ('forall', 'exists'):
            if args[0][0] != 'id':
                raise SpecError('bound variable expected')
            bv = z3.Int(args[0][1] + '!b')
            e2 = env.bind(args[0][1], bv, True)
            lo = self.eval_term(args[1], e2)
            hi = self.eval_term(args[2], e2)
            body = self.eval_bool(args[3], e2)
            rng = z3.And(lo <= bv, bv < hi)
            if name == 'forall':
                return forall([bv], z3.Implies(rng, body))
            return z3.Exists([bv], z3.And(rng, body))
        if name == 'foralltyped':
            # foralltyped(x, T, body): for every value x of the (pointer or interface) type T
            if args[0][0] != 'id':
                raise SpecError('bound variable expected')
            tk = self.type_key(args[1])
            lay = m.layout(tk)
            if len(lay) != 1:
                raise SpecError('foralltyped needs a pointer or interface type')
            bv = z3.Const(args[0][1] + '!t', m.sort(lay[0][1]))
            e2 = env.bind(args[0][1], Val(tk, [bv]), True)
            e2.bound = env.bound + (bv,)
            body = self.eval_bool(args[2], e2)
            return forall([bv], body)
        if name in ('forallref', 'forallstr'):
            # forallstr(a, body) / forallstr(a, c, body); directly nested quantifiers are merged into one
            # (z3 does not pull nested quantifiers, and the outer one would be left without a pattern)
            bvs = []
            e2 = env
            cur_name, cur_args = name, args
            while True:
                srt = self.m.Int if cur_name == 'forallref' else self.m.Str
                for a in cur_args[:-1]:
                    if a[0] != 'id':
                        raise SpecError('bound variable expected in %s' % cur_name)
                    bv = z3.Const(a[1] + '!b', srt)
                    bvs.append(bv)
                    e2 = e2.bind(a[1], bv, True)
                body_ast = cur_args[-1]
                if body_ast[0] == 'call' and body_ast[1][0] == 'id' and body_ast[1][1] in ('forallref', 'forallstr'):
                    cur_name, cur_args = body_ast[1][1], body_ast[2]
                    continue
                break
            body = self.eval_bool(body_ast, e2)
            return forall(bvs, body)
        if name == 'fresh':
            v = self.eval_term(args[0], env)
            base = env.old.alloc if env.old is not None else self.ex.entry_alloc
            return z3.And(v >= base, v < env.st.alloc)
        if name == 'sinceentry':
            # sinceentry(r): the object r was allocated by the function under verification (not by its caller)
            v = self.eval_term(args[0], env)
            return z3.And(v >= self.ex.entry_alloc, v < env.st.alloc)
        if name == 'freshiface':
            # freshiface(v): whatever pointer the interface value v holds was allocated since the old state
            v = self.eval(args[0], env)
            if not isinstance(v, Val) or m.kind(v.t) != 'interface':
                raise SpecError('freshiface() of a non-interface')
            base = env.old.alloc if env.old is not None else self.ex.entry_alloc
            t = m.types.get(v.t) or {}
            impls = t.get('impls') or (m.types.get(m.under(v.t)) or {}).get('impls') or []
            a = v.leaves[0]
            alts = [a == m.Any.nil]
            for c in impls:
                if c in m.any_index and m.kind(c) == 'pointer':
                    r = m.any_get(c, a)[0]
                    alts.append(z3.And(m.any_is(c, a), z3.Or(r == 0, z3.And(r >= base, r < env.st.alloc))))
            return z3.Or(*alts)
        if name == 'printedis':
            # printedis(j, e): the j-th operand (after the format) of the latest fmt.Printf call on this path is the
            # value of e (boxed at e's static type)
            lp = getattr(env.st, 'last_print', None)
            if lp is None or lp[1] is None:
                raise SpecError('printedis(): no fmt.Printf call with a literal operand list on this path')
            j = args[0]
            if j[0] != 'num':
                raise SpecError('printedis(): the operand position must be a literal')
            jj = int(j[1])
            if jj >= len(lp[1]):
                return z3.BoolVal(False)
            v = self.eval(args[1], env)
            if not isinstance(v, Val):
                raise SpecError('printedis(): the expected value must be a program value')
            if m.kind(v.t) == 'interface':
                return lp[1][jj] == v.leaves[0]
            return lp[1][jj] == m.any_make(v.t, list(v.leaves))
        if name == 'absent':
            # absent(v): the interface value v is nil or holds a nil pointer (a "typed nil")
            v = self.eval(args[0], env)
            if not isinstance(v, Val) or m.kind(v.t) != 'interface':
                raise SpecError('absent() of a non-interface')
            t = m.types.get(v.t) or {}
            impls = t.get('impls') or (m.types.get(m.under(v.t)) or {}).get('impls') or []
            a = v.leaves[0]
            alts = [a == m.Any.nil]
            for c in impls:
                if c in m.any_index and m.kind(c) == 'pointer':
                    alts.append(z3.And(m.any_is(c, a), m.any_get(c, a)[0] == 0))
            return z3.Or(*alts)
        if name == 'allocated':
            v = self.eval_term(args[0], env)
            return z3.And(v > 0, v < env.st.alloc)
        if name == 'real':
            return z3.ToReal(self.eval_term(args[0], env))
        if name == 'floor':
            return z3.ToInt(self.eval_term(args[0], env))
        if name in SPEC_UFS:
            sorts = [{'S': m.Str, 'I': m.Int, 'B': m.Bool, 'R': m.Real}[c] for c in SPEC_UFS[name]]
            f = m.uf(name, *sorts)
            return f(*[self.eval_term(a, env) for a in args])
        if name in self.ex.db.relations or name in self.ex.db.functions:
            leaves = []
            for a in args:
                v = self.eval(a, env)
                if isinstance(v, Val):
                    if v.ptr is not None:
                        leaves.append(self.term(v))
                    else:
                        leaves.extend(v.leaves)
                else:
                    leaves.append(v)
            rs = m.Bool if name in self.ex.db.relations else {'Int': m.Int, 'Bool': m.Bool, 'Str': m.Str}[self.ex.db.functions[name]]
            f = m.uf('rel_' + name, *([l.sort() for l in leaves] + [rs]))
            return f(*leaves)
        if name == 'fraction':
            # fraction(n, d): the rational n/d as the library model of big.Rat.SetFrac builds it
            from . import lib
            return lib.fraction(self.ex, env.live, self.eval_term(args[0], env), self.eval_term(args[1], env))
        if name == 'ssub':
            return m.ssub(self.eval_term(args[0], env), self.eval_term(args[1], env), self.eval_term(args[2], env))
        if name == 'slen':
            return m.slen(self.eval_term(args[0], env))
        if name == 'srunes':
            return m.srunes(self.eval_term(args[0], env))
        if name == 'unchanged':
            a = self.eval(args[0], env)
            b = self.eval(args[0], env.with_state(env.old))
            return self.equal(a, b)
        if name == 'external':
            # external(r): the object was handed out by code outside the module (never owned by the run)
            v = self.eval_term(args[0], env)
            b = self.ex.external_bound if self.ex.external_bound is not None else self.ex.entry_alloc
            return z3.And(v >= 0, v < b)
        if name == 'storeBal':
            f = m.uf('store_balance', m.Str, m.Str, m.Int)
            return f(self.eval_term(args[0], env), self.eval_term(args[1], env))
        if name == 'storeMeta':
            f = m.uf('store_meta', m.Str, m.Str, m.Str)
            return f(self.eval_term(args[0], env), self.eval_term(args[1], env))
        if name in ('seen', 'seenOuter'):
            # seen(k): key k was already visited by the innermost enclosing map-range loop
            # seenOuter(k): the same for the next enclosing map-range loop
            heads = []
            if env.loop_head is not None:
                heads.append(env.loop_head)
            for (h, info) in reversed(env.frame.loopstack):
                if h not in heads:
                    heads.append(h)
            iids = []
            for h in heads:
                iid = self.ex.loop_iterator(env.frame, h)
                if iid is not None and iid in env.st.iters and iid not in iids:
                    iids.append(iid)
            want = 0 if name == 'seen' else 1
            if len(iids) <= want:
                raise SpecError('%s() without an enclosing loop that ranges over a map' % name)
            return z3.Select(env.st.iters[iids[want]][0], self.eval_term(args[0], env))
        if name == 'addr':
            # addr(x): pointer to the cell of the address-taken local variable x
            if args[0][0] != 'id':
                raise SpecError('addr() needs a variable name')
            fr = env.frame
            cells = [ins for ins in fr.fn.cells().get(args[0][1], ()) if ins['reg'] in fr.regs]
            if not cells:
                raise SpecError('addr(%s): no such address-taken variable on this path' % args[0][1])
            ins = sorted(cells, key=lambda x: int(x['reg'][1:]) if x['reg'][1:].isdigit() else 0)[-1]
            return fr.regs[ins['reg']]
        if name == 'ref':
            return self.term(self.eval(args[0], env))
        if name == 'arr':
            v = self.eval(args[0], env)
            if not isinstance(v, Val) or m.kind(v.t) != 'slice':
                raise SpecError('arr() of a non-slice')
            return v.leaves[0]
        if name == 'heapsame':
            # heapsame(bigint): the whole heap of that kind is unchanged since entry
            # every object of that heap that existed in the old state is unchanged
            names = self.heap_names(type_text(args[0]), env)
            r = z3.Int('r!hs')
            cs = []
            for n in names:
                a, b = env.st.heap(n), env.old.heap(n)
                if a.eq(b):
                    continue
                body = z3.Implies(z3.And(r >= 0, r < env.old.alloc), z3.Select(a, r) == z3.Select(b, r))
                pats = [z3.Select(x, r) for x in (a, b) if not (z3.is_quantifier(x) and x.is_lambda())]
                if pats:
                    cs.append(forall([r], body, patterns=pats[:1]))
                else:
                    cs.append(forall([r], body))
            return z3.And(*cs) if cs else z3.BoolVal(True)
        if name in self.ex.db.specs:
            sd = self.ex.db.specs[name]
            if len(sd.params) != len(args):
                raise SpecError('spec %s expects %d arguments' % (name, len(sd.params)))
            if sd.view:
                return self.view_call(sd, args, env)
            e2 = Env(env.frame, env.st, env.old, env.results)
            e2.loop_head = env.loop_head
            e2.loop_entry = env.loop_entry
            e2.bound = env.bound
            e2.live = env.live
            e2.point = env.point
            e2.vars = dict(env.vars)
            vals = [self.eval(a, env) for a in args]
            for p, v in zip(sd.params, vals):
                e2.vars[p] = v
            return self.eval(sd.ast, e2)
        from . import specfuns
        h = specfuns.BUILTINS.get(name)
        if h is not None:
            return h(self, env, [self.eval(a, env) for a in args])
        raise SpecError('unknown specification function %r' % name)

    def range_of(self, v, env, depth=0):
        m = self.m
        ex = self.ex
        rk = self.type_key(('sel', ('id', 'parser'), 'Range'))
        if m.kind(v.t) == 'pointer':
            p = ex.ptr_of(v)
            path = self.find_field(ex.pointee_type(p), 'Range')
            if path is None:
                raise SpecError('no Range in %s' % v.t)
            cur = p
            for comp in path:
                cur = Ptr(cur.kind, cur.T, cur.path + comp + '.', cur.ref, cur.idx)
            return ex.load(env.st, cur)
        t = m.types.get(v.t) or {}
        impls = t.get('impls') or (m.types.get(m.under(v.t)) or {}).get('impls') or []
        a = v.leaves[0]
        res = None
        for c in impls:
            if c not in m.any_index or m.kind(c) != 'pointer':
                continue
            T = m.elem(c)
            if self.find_field(T, 'Range') is None:
                continue
            ref = m.any_get(c, a)[0]
            rv = self.range_of(Val(c, [ref]), env, depth + 1)
            if res is None:
                # a value that holds none of the node types with a Range has the zero Range (a fixed default,
                # so that the term does not depend on the heap)
                res = m.zero_val(rk)
            res = Val(rk, [z3.If(m.any_is(c, a), x, y) for x, y in zip(rv.leaves, res.leaves)])
        if res is None:
            raise SpecError('rangeof: no implementer of %s carries a Range' % v.t)
        return res

    def method_call(self, f, args, env):
        """x.Method(args) on a receiver whose type lies in an `externpure` package: the same uninterpreted
        function the executor uses for that call"""
        from . import lib
        m = self.m
        recv = self.eval(f[1], env)
        meth = f[2]
        if not isinstance(recv, Val):
            raise SpecError('method call on a non-value')
        avs = [self.eval(a, env) for a in args]
        t = m.types.get(recv.t) or {}
        if m.kind(recv.t) == 'interface':
            sig = (t.get('sigs') or (m.types.get(m.under(recv.t)) or {}).get('sigs') or {}).get(meth)
            if sig is None:
                raise SpecError('no method %s on %s' % (meth, recv.t))
            if not lib.is_externpure(self.ex, recv.t):
                raise SpecError('method calls in specifications need an externpure receiver type (%s)' % recv.t)
            key = 'ext_invoke_%s.%s' % (recv.t.rsplit('/', 1)[-1], meth)
            rt = sig['results']
        elif m.kind(recv.t) == 'pointer':
            et = m.types.get(m.elem(recv.t)) or {}
            sig = (et.get('sigs') or {}).get(meth)
            if sig is None:
                raise SpecError('no method %s on %s' % (meth, recv.t))
            full = '(%s).%s' % (recv.t, meth)
            if not lib.is_externpure(self.ex, full):
                raise SpecError('method calls in specifications need an externpure receiver type (%s)' % recv.t)
            key = 'ext_' + lib.short_callee(full)
            rt = sig['results']
        else:
            raise SpecError('method call on %s' % recv.t)
        if len(rt) != 1:
            raise SpecError('method %s does not return exactly one value' % meth)
        return lib.pure_value(self.ex, env.live, rt[0], key, [recv] + [a if isinstance(a, Val) else Val('int', [self.term(a)]) for a in avs])

    def view_call(self, sd, args, env):
        """a spec function kept opaque: F(version, scalar args) with one definitional axiom per distinct
        state it is evaluated in; quantified facts about it then match by plain E-matching"""
        m = self.m
        vals = [self.eval(a, env) for a in args]
        bvars = []
        e2 = Env(env.frame, env.st, env.old, env.results)
        e2.loop_head = env.loop_head
        e2.loop_entry = env.loop_entry
        e2.vars = dict(env.vars)
        e2.bound = env.bound
        e2.live = env.live
        e2.point = env.point
        actual = []
        for p, v in zip(sd.params, vals):
            if isinstance(v, Val) and (len(v.leaves) != 1 or m.kind(v.t) in ('pointer', 'map', 'slice', 'interface', 'struct')):
                e2.vars[p] = v           # structured argument: part of the state the view is taken of
            else:
                t = self.term(v)
                bv = z3.Const('%s!v_%s' % (p, sd.name), t.sort())
                bvars.append(bv)
                actual.append(t)
                e2.vars[p] = bv
        e2.bound = e2.bound + tuple(bvars)
        body = self.term(self.eval(sd.ast, e2))
        key = (sd.name, body.get_id())
        ent = self.ex.view_versions.get(key)
        F = m.uf('view_' + sd.name, *([m.Int] + [b.sort() for b in bvars] + [body.sort()]))
        self.last_view = (F, None)
        if ent is None:
            ver = z3.IntVal(len(self.ex.view_versions) + 1)
            self.ex.view_versions[key] = (ver, body)
            if bvars:
                self.ex.axioms.append(forall(bvars, F(ver, *bvars) == body, patterns=[F(ver, *bvars)]))
            else:
                self.ex.axioms.append(F(ver) == body)
        else:
            ver = ent[0]
        self.last_view = (F, ver)
        return F(ver, *actual)

    def bigval(self, v, env, sort):
        m = self.m
        if isinstance(v, Val):
            if m.kind(v.t) == 'pointer':
                p = self.ex.ptr_of(v)
                return self.ex.rd_leaf(env.st, p, '', sort)
            if (sort == 'Int' and m.is_bigint(v.t)) or (sort == 'Real' and m.is_bigrat(v.t)):
                return v.leaves[0]
            raise SpecError('val()/rat() of %s' % v.t)
        raise SpecError('val()/rat() of a non-value')

    def length(self, v, env):
        m = self.m
        if not isinstance(v, Val):
            if z3.is_expr(v) and v.sort() == m.Str:
                return m.slen(v)
            raise SpecError('len of a non-value')
        k = m.kind(v.t)
        if k == 'slice':
            return v.leaves[2]
        if k == 'map':
            return self.ex.map_len(env.st, v.t, v.leaves[0])
        lay = m.layout(v.t)
        if len(lay) == 1 and lay[0][1] == 'Str':
            return m.slen(v.leaves[0])
        raise SpecError('len of %s' % v.t)

    # ------------------------------------------------------------ frames
    def heap_names(self, txt, env):
        if txt == 'bigint':
            return ['H|bigint||Int']
        if txt == 'bigrat':
            return ['H|bigrat||Real']
        raise SpecError('unknown heap designator %s' % txt)

    def lvalue_locs(self, ast, env):
        """modifies item -> list of (heap name, ref or None)"""
        m = self.m
        ex = self.ex
        if ast[0] == 'call' and ast[1][0] == 'id':
            fn = ast[1][1]
            if fn == 'heap':
                t = type_text(ast[2][0])
                if t == 'any':
                    return [('*', None)]
                return [(n, None) for n in self.heap_names(t, env)]
            if fn in ('val', 'rat'):
                v = self.eval(ast[2][0], env)
                p = ex.ptr_of(v)
                return self.ptr_locs(p)
            if fn == 'elems':
                v = self.eval(ast[2][0], env)
                E = m.elem(v.t)
                return [(ex.aname(E, p, s), v.leaves[0]) for (p, s, tk) in m.layout(E)]
            if fn == 'entries':
                v = self.eval(ast[2][0], env)
                return [(n, v.leaves[0]) for n in sorted(ex.map_heaps(v.t))]
            if fn == 'cellsof':
                # the big integers held by the balance cache of the given programState
                stp = self.eval(ast[2][0], env)
                cb = self.select(stp, 'CachedBalances', env)
                u1, K1, V1 = ex.map_parts(cb.t)
                u2, K2, V2 = ex.map_parts(V1)
                st0 = env.st
                dom1 = z3.Select(st0.heap('MD|%s' % u1), cb.leaves[0])
                val1 = z3.Select(st0.heap('MV|%s||Int' % u1), cb.leaves[0])
                md2 = st0.heap('MD|%s' % u2)
                mv2 = st0.heap('MV|%s||Int' % u2)
                a = z3.Const('a!cell', m.Str)
                c = z3.Const('c!cell', m.Str)

                def holds(r, cbref=cb.leaves[0]):
                    inner = z3.Select(val1, a)
                    return z3.Exists([a, c], z3.And(cbref != 0, z3.Select(dom1, a), inner != 0, z3.Select(z3.Select(md2, inner), c),
                                                    z3.Select(z3.Select(mv2, inner), c) == r))
                from .exec import PredLoc
                key = ('cellsof', cb.leaves[0].get_id(), dom1.get_id(), val1.get_id(), md2.get_id(), mv2.get_id())
                return [('H|bigint||Int', PredLoc(holds, key))]
            if fn in ('innermapsof', 'innermaps'):
                # innermapsof(st): the per-account maps held by the balance cache of the given programState
                # innermaps(m):    the maps stored as values of the map m
                if fn == 'innermapsof':
                    stp = self.eval(ast[2][0], env)
                    cb = self.select(stp, 'CachedBalances', env)
                else:
                    cb = self.eval(ast[2][0], env)
                u1, K1, V1 = ex.map_parts(cb.t)
                st0 = env.st
                dom1 = z3.Select(st0.heap('MD|%s' % u1), cb.leaves[0])
                val1 = z3.Select(st0.heap('MV|%s||Int' % u1), cb.leaves[0])
                a = z3.Const('a!im', m.Str)

                def holds(r, cbref=cb.leaves[0]):
                    return z3.Exists([a], z3.And(cbref != 0, z3.Select(dom1, a), z3.Select(val1, a) == r))
                from .exec import PredLoc
                key = ('innermapsof', cb.leaves[0].get_id(), dom1.get_id(), val1.get_id())
                return [(n, PredLoc(holds, key)) for n in sorted(ex.map_heaps(V1))]
            if fn == 'allof':
                # allof(T): every object of struct type T (whole heap family)
                tk = self.type_key(ast[2][0])
                return [(ex.hname(tk, p, s), None) for (p, s, t2) in m.layout(tk)]
            if fn == 'allelems':
                tk = self.type_key(ast[2][0])
                return [(ex.aname(tk, p, s), None) for (p, s, t2) in m.layout(tk)]
            if fn == 'allentries':
                tk = self.type_key(ast[2][0])
                return [(n, None) for n in sorted(ex.map_heaps(tk))]
        if ast[0] == 'un' and ast[1] == '*':
            v = self.eval(ast[2], env)
            return self.ptr_locs(ex.ptr_of(v))
        if ast[0] == 'sel':
            base = self.eval(ast[1], env)
            if isinstance(base, Val) and m.kind(base.t) == 'pointer':
                p = ex.ptr_of(base)
                T = ex.pointee_type(p)
                path = self.find_field(T, ast[2])
                if path is None:
                    raise SpecError('no field %s' % ast[2])
                cur = p
                for comp in path:
                    cur = Ptr(cur.kind, cur.T, cur.path + comp + '.', cur.ref, cur.idx)
                return self.ptr_locs(cur)
        raise SpecError('unsupported modifies item %r' % (ast,))

    def ptr_locs(self, p):
        ex = self.ex
        T = ex.pointee_type(p)
        out = []
        for (path, sort, tk) in self.m.layout(T):
            lp = ex.leafpath(p.path, path)
            if p.kind == 'obj':
                out.append((ex.hname(p.T, lp, sort), p.ref))
            else:
                out.append((ex.aname(p.T, lp, sort), p.ref))
        return out


def split_conj(ast):
    """a && b -> [a, b];  a ==> (b && c) -> [a ==> b, a ==> c]"""
    if ast[0] == 'bin' and ast[1] == '&&':
        return split_conj(ast[2]) + split_conj(ast[3])
    if ast[0] == 'bin' and ast[1] == '==>':
        rs = split_conj(ast[3])
        if len(rs) > 1:
            return [('bin', '==>', ast[2], r) for r in rs]
    return [ast]


def type_text(ast):
    if ast[0] == 'id':
        return ast[1]
    if ast[0] == 'sel':
        return type_text(ast[1]) + '.' + ast[2]
    if ast[0] == 'un' and ast[1] == '*':
        return '*' + type_text(ast[2])
    raise SpecError('type expression expected')
