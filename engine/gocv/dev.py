"""development driver: python -m gocv.dev <ssa.json> <function short name> ..."""
import sys, time
import z3
from .ssa import Program
from .spec import ContractDB
from .exec import Executor
from . import solve

def main():
    prog = Program(sys.argv[1])
    db = ContractDB()
    db.load_dir('/repo', prog.module)
    ex = Executor(prog, db)
    for name in sys.argv[2:]:
        fn = prog.find(name)
        if fn is None:
            print('no such function', name); continue
        t0 = time.time()
        obls = ex.verify(fn)
        print('%s: %d obligations, %d paths, gen %.2fs' % (name, len(obls), ex.npaths, time.time() - t0))
        agg = {}
        for o in obls:
            solve.discharge(ex, o, 10000)
            a = agg.setdefault(o.name, [0, 0, 0.0, []])
            a[0] += 1
            a[1] += (o.status == 'proved')
            a[2] += o.time
            if o.status != 'proved':
                a[3].append(o)
        for n, (tot, ok, t, bad) in agg.items():
            print('  %-70s %d/%d %.2fs %s' % (n, ok, tot, t, '' if not bad else 'FAIL ' + bad[0].status + ' ' + str(bad[0].note) + ' line %s' % bad[0].line))
            for o in bad[:1]:
                if o.model:
                    print('      model:', {k: v for k, v in o.model.items() if k != '_decls'})
        print('  trusted:', sorted(ex.trusted))
        if ex.notes: print('  notes:', ex.notes)

if __name__ == '__main__':
    sys.setrecursionlimit(100000)
    main()
