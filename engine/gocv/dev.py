"""development driver: python -m gocv.dev [--t ms] [--only substr] [--gen] <function short name> ...
Regenerates the SSA dump when sources changed (same cache as the checks)."""
import sys
import time
import z3
from .ssa import Program
from .spec import ContractDB
from .exec import Executor
from . import solve
from .check import export_ssa


def main():
    args = sys.argv[1:]
    tmo = 3000
    only = None
    genonly = False
    nosafe = False
    names = []
    while args:
        a = args.pop(0)
        if a == '--t':
            tmo = int(args.pop(0))
        elif a == '--only':
            only = args.pop(0)
        elif a == '--nosafe':
            nosafe = True
        elif a == '--gen':
            genonly = True
        else:
            names.append(a)
    path, dg, secs, cached = export_ssa()
    prog = Program(path)
    db = ContractDB()
    from .check import REPO as _R
    db.load_dir(_R, prog.module)
    ex = Executor(prog, db)
    for name in names:
        fn = prog.find(name)
        if fn is None:
            print('no such function', name)
            continue
        t0 = time.time()
        obls = ex.verify(fn, safety_props=('C12',), want_safety=not nosafe)
        print('%s: %d obligations, %d paths, gen %.2fs' % (name, len(obls), ex.npaths, time.time() - t0), flush=True)
        if genonly:
            continue
        agg = {}
        sel = [o for o in obls if not only or only in o.name]
        solve.discharge_all(ex, sel, tmo)
        for o in sel:
            a = agg.setdefault(o.name, [0, 0, 0.0, []])
            a[0] += 1
            a[1] += (o.status == 'proved')
            a[2] += o.time
            if o.status != 'proved':
                a[3].append(o)
                print('    .. %s %s %.1fs' % (o.name, o.status, o.time), flush=True)
        nbad = 0
        for n, (tot, ok, t, bad) in agg.items():
            if bad or t > 2.0:
                nbad += bool(bad)
                print('  %-70s %d/%d %.2fs %s' % (n[-90:], ok, tot, t, '' if not bad else 'FAIL ' + bad[0].status + ' ' + str(bad[0].note)[:80] + ' line %s' % bad[0].line))
                for o in bad[:1]:
                    if o.model:
                        print('      model:', str({k: v for k, v in o.model.items() if k != '_decls'})[:300])
        print('  => %d obligation names, %d failing, solve %.1fs' % (len(agg), nbad, sum(a[2] for a in agg.values())))
        if ex.notes:
            print('  notes:', [n[:150] for n in ex.notes[:5]])


if __name__ == '__main__':
    sys.setrecursionlimit(100000)
    main()
