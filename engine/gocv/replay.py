"""Replay files for failed obligations.  Every failed obligation gets a replay file naming the
obligation and carrying the verifier's output (status, reason, model of the inputs, SMT-LIB text).
When the model determines concrete inputs for a function with a registered harness, a Go test is
generated and run against the real code with `go test -overlay` (nothing is written into /repo)."""
import json
import os
import subprocess
import tempfile

from . import harness


def make_replay(prog, prop, name, bad, path, repo):
    info = {
        'property': prop,
        'obligation': name,
        'status': bad.get('status'),
        'verifier_note': bad.get('note'),
        'solver': bad.get('solver'),
        'source_line': bad.get('line'),
        'model': bad.get('model'),
        'confirmed': False,
    }
    smt = bad.get('smt2')
    if smt:
        sp = path[:-5] + '.smt2'
        with open(sp, 'w') as f:
            f.write(smt)
        info['smt2_file'] = sp
    try:
        h = harness.try_replay(prog, name, bad, repo, path)
        if h:
            info.update(h)
    except Exception as e:  # replay is best effort; the violation is reported regardless
        info['replay_error'] = repr(e)
    with open(path, 'w') as f:
        json.dump(info, f, indent=1)
    return info
