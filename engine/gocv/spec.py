"""Contract files (//@ comments in build-tag-guarded Go files inside /repo)
and the specification expression language (Go expression syntax + built-ins)."""
import os
import re

# --------------------------------------------------------------------------- lexer / parser

TOKEN_RE = re.compile(r'''
    (?P<ws>\s+)
  | (?P<num>\d+)
  | (?P<str>"(?:[^"\\]|\\.)*")
  | (?P<id>[A-Za-z_][A-Za-z0-9_]*)
  | (?P<op><==>|==>|==|!=|<=|>=|&&|\|\||[-+*/%<>!()\[\]{}.,:@#])
''', re.X)


class ParseError(Exception):
    pass


def tokenize(s):
    out = []
    pos = 0
    while pos < len(s):
        m = TOKEN_RE.match(s, pos)
        if not m:
            raise ParseError('bad character %r in spec expression %r' % (s[pos], s))
        pos = m.end()
        if m.lastgroup == 'ws':
            continue
        out.append((m.lastgroup, m.group(m.lastgroup)))
    out.append(('eof', ''))
    return out


# AST nodes are tuples: ('num', n) ('str', s) ('id', name) ('sel', e, name) ('idx', e, i)
# ('call', f, [args]) ('un', op, e) ('bin', op, a, b) ('slice', e, lo, hi)

BINPREC = {
    '<==>': 1, '==>': 2, '||': 3, '&&': 4,
    '==': 5, '!=': 5, '<': 5, '<=': 5, '>': 5, '>=': 5,
    '+': 6, '-': 6, '*': 7, '/': 7, '%': 7,
}


class Parser:
    def __init__(self, text):
        self.toks = tokenize(text)
        self.i = 0
        self.text = text

    def peek(self):
        return self.toks[self.i]

    def next(self):
        t = self.toks[self.i]
        self.i += 1
        return t

    def expect(self, v):
        t = self.next()
        if t[1] != v:
            raise ParseError('expected %r got %r in %r' % (v, t[1], self.text))

    def parse(self):
        e = self.expr(0)
        if self.peek()[0] != 'eof':
            raise ParseError('trailing tokens %r in %r' % (self.peek(), self.text))
        return e

    def expr(self, minprec):
        lhs = self.unary()
        while True:
            k, v = self.peek()
            if k == 'op' and v in BINPREC and BINPREC[v] >= minprec:
                p = BINPREC[v]
                self.next()
                if v in ('==>', '<==>'):
                    rhs = self.expr(p)  # right assoc
                else:
                    rhs = self.expr(p + 1)
                lhs = ('bin', v, lhs, rhs)
            else:
                return lhs

    def unary(self):
        k, v = self.peek()
        if k == 'op' and v in ('!', '-', '*'):
            self.next()
            return ('un', v, self.unary())
        return self.postfix()

    def postfix(self):
        e = self.primary()
        while True:
            k, v = self.peek()
            if v == '.' and k == 'op':
                self.next()
                k2, n = self.next()
                if k2 != 'id':
                    raise ParseError('field name expected in %r' % self.text)
                e = ('sel', e, n)
            elif v == '[' and k == 'op':
                self.next()
                if self.peek()[1] == ':':
                    self.next()
                    hi = self.expr(0)
                    self.expect(']')
                    e = ('slice', e, None, hi)
                else:
                    i = self.expr(0)
                    if self.peek()[1] == ':':
                        self.next()
                        hi = None if self.peek()[1] == ']' else self.expr(0)
                        self.expect(']')
                        e = ('slice', e, i, hi)
                    else:
                        self.expect(']')
                        e = ('idx', e, i)
            elif v == '(' and k == 'op':
                self.next()
                args = []
                while self.peek()[1] != ')':
                    args.append(self.expr(0))
                    if self.peek()[1] == ',':
                        self.next()
                self.expect(')')
                e = ('call', e, args)
            else:
                return e

    def primary(self):
        k, v = self.next()
        if k == 'num':
            return ('num', int(v))
        if k == 'str':
            return ('str', bytes(v[1:-1], 'utf-8').decode('unicode_escape'))
        if k == 'id':
            return ('id', v)
        if v == '(':
            e = self.expr(0)
            self.expect(')')
            return e
        raise ParseError('unexpected %r in %r' % (v, self.text))


def parse_expr(text):
    return Parser(text).parse()


# --------------------------------------------------------------------------- contract files

class Clause:
    def __init__(self, kind, label, props, text, file, line):
        self.kind = kind
        self.label = label
        self.props = props
        self.text = text
        self.file = file
        self.line = line
        self._ast = None

    @property
    def ast(self):
        if self._ast is None:
            self._ast = parse_expr(self.text)
        return self._ast

    def __repr__(self):
        return '%s[%s]%s %s' % (self.kind, self.label, self.props, self.text)


class LoopSpec:
    def __init__(self, ordinal):
        self.ord = ordinal
        self.invariants = []
        self.modifies = []
        self.decreases = None
        self.lets = []
        self.asserts = []   # proved, then assumed, at the end of every iteration (before the invariants)


class Contract:
    def __init__(self, pkg, fname, file, line):
        self.pkg = pkg
        self.fname = fname  # short name as written
        self.file = file
        self.line = line
        self.requires = []
        self.ensures = []
        self.modifies = None  # None = unspecified (anything); [] = nothing
        self.loops = {}
        self.flags = set()   # inline, trusted, pure, safe
        self.props = set()
        self.lets = []       # (name, expr text) evaluated at entry
        self.ghost = []
        self.asserts = []
        self.assumes = []
        self.unroll = None
        self.calls = None
        self.assumed_pre = set()
        self.extern_params = []
        self.external_below = None

    def loop(self, k):
        if k not in self.loops:
            self.loops[k] = LoopSpec(k)
        return self.loops[k]


class SpecDef:
    def __init__(self, name, params, text):
        self.name = name
        self.params = params
        self.text = text
        self._ast = None
        self.view = False

    @property
    def ast(self):
        if self._ast is None:
            self._ast = parse_expr(self.text)
        return self._ast


HEAD_RE = re.compile(r'^(requires|ensures|invariant|assert|assumes)\s+\[([^\]]+)\]\s*(?:\{([^}]*)\})?\s*(.*)$')


class ContractDB:
    def __init__(self):
        self.contracts = {}   # (pkgpath, short fname) -> Contract
        self.specs = {}       # name -> SpecDef
        self.axioms = []      # (label, text)
        self.files = []
        self.safety = {}      # property -> list of function patterns under the safety sweep
        self.ewfnonnull = set()  # "Type.Field" fields that are never nil even in a tree parsed from erroneous text
        self.uses_ewf = False
        self.nullable = set() # "Type.Field" pointer/interface fields that may be nil in a well-formed AST
        self.wfexclude = {}   # interface short name -> set of implementer short names never produced by the parser
        self.wfalso = {}      # struct short name -> list of extra well-formedness conditions over `self`
        self.relations = set()
        self.functions = {}
        self.closed = set()   # interface type names (pkg.Name) whose dynamic types are exactly the implementers known to the module
        self.externpure = []  # package path prefixes whose functions/methods are deterministic and side-effect free (uninterpreted)
        self.pkg_frame = {}
        self.pkg_safety = {}  # package path -> properties the panic-freedom obligations of its functions count for

    def load_dir(self, root, module):
        for dirpath, dirs, files in os.walk(root):
            dirs[:] = [d for d in dirs if not d.startswith('.')]
            for fn in files:
                if fn.endswith('_verif.go') and fn.startswith('zz_contracts'):
                    rel = os.path.relpath(dirpath, root)
                    pkg = module if rel == '.' else module + '/' + rel.replace(os.sep, '/')
                    self.load_file(os.path.join(dirpath, fn), pkg)

    def load_file(self, path, pkg):
        self.files.append(path)
        cur = None
        curloop = None
        last = None  # clause to which continuation lines are appended
        with open(path) as f:
            lines = f.readlines()
        for ln, raw in enumerate(lines, 1):
            s = raw.strip()
            if not s.startswith('//@'):
                continue
            body = s[3:].strip()
            if not body or body.startswith('#'):
                continue
            # strip trailing comments introduced by ' // '
            if ' // ' in body:
                body = body.split(' // ')[0].rstrip()
            word = body.split(None, 1)[0]
            rest = body[len(word):].strip()
            if word == 'func':
                cur = Contract(pkg, rest, path, ln)
                self.contracts[(pkg, rest)] = cur
                curloop = None
                last = None
            elif word == 'extern':
                # assumed contract of a function / interface method outside the module:
                #   //@ extern invoke:Store.GetBalances(recv, ctx, query)
                m = re.match(r'^(\S+?)\(([^)]*)\)\s*$', rest)
                if not m:
                    raise ParseError('%s:%d: extern needs a parameter list' % (path, ln))
                cur = Contract('extern', m.group(1), path, ln)
                cur.flags.add('trusted')
                cur.extern_params = [x.strip() for x in m.group(2).split(',') if x.strip()]
                self.contracts[('extern', m.group(1))] = cur
                curloop = None
                last = None
            elif word in ('spec', 'view'):
                m = re.match(r'^([A-Za-z_][A-Za-z0-9_]*)\s*\(([^)]*)\)\s*=\s*(.*)$', rest)
                if not m:
                    raise ParseError('%s:%d: bad spec definition' % (path, ln))
                params = [p.strip() for p in m.group(2).split(',') if p.strip()]
                sd = SpecDef(m.group(1), params, m.group(3))
                sd.view = (word == 'view')
                self.specs[sd.name] = sd
                last = sd
            elif word == 'ewfnonnull':
                self.ewfnonnull.update(rest.split())
                self.uses_ewf = True
                last = None
            elif word == 'nullable':
                self.nullable.update(rest.split())
                last = None
            elif word == 'axiom':
                m = HEAD_RE.match('requires ' + rest)
                if not m:
                    raise ParseError('%s:%d: axiom needs a [label]' % (path, ln))
                c = Clause('axiom', m.group(2), [], m.group(4), path, ln)
                c.pkg = pkg
                self.axioms.append(c)
                last = c
            elif word == 'function':
                # `function name Sort`: an uninterpreted function of values with an Int / Bool / Str result
                ws = rest.split()
                self.functions[ws[0]] = ws[1] if len(ws) > 1 else 'Int'
                last = None
            elif word == 'relation':
                # an uninterpreted relation over values (a name for "x stands in this relation to y"); it gets its
                # meaning only from the clauses that assume or prove it
                self.relations.update(rest.split())
                last = None
            elif word == 'closed':
                self.closed.update(rest.split())
                last = None
            elif word == 'externpure':
                self.externpure.extend(rest.split())
                last = None
            elif word == 'frameprop':
                # the frame obligations (writes inside the modifies clause) of every function of the package count for these
                self.pkg_frame.setdefault(pkg, set()).update(rest.replace(',', ' ').split())
                last = None
            elif word == 'safetyprop':
                self.pkg_safety.setdefault(pkg, set()).update(rest.replace(',', ' ').split())
                last = None
            elif word == 'wfalso':
                nm, _, ex = rest.partition(':')
                c = Clause('wfalso', nm.strip(), [], ex.strip(), path, ln)
                self.wfalso.setdefault(nm.strip(), []).append(c)
                last = c
            elif word == 'wfexclude':
                ws = rest.split()
                self.wfexclude.setdefault(ws[0], set()).update(ws[1:])
                last = None
            elif word == 'sweep':
                # sweep C12 <function name pattern> ...
                ws = rest.split()
                self.safety.setdefault(ws[0], []).extend((pkg, w) for w in ws[1:])
                last = None
            elif word == '|':
                if last is None:
                    raise ParseError('%s:%d: continuation without clause' % (path, ln))
                last.text += ' ' + rest
                last._ast = None
            elif cur is None:
                raise ParseError('%s:%d: clause outside func block: %s' % (path, ln, body))
            elif word == 'loop':
                curloop = cur.loop(int(rest.split()[0]))
                last = None
            elif word in ('requires', 'ensures', 'invariant', 'assert', 'assumes'):
                m = HEAD_RE.match(body)
                if not m:
                    raise ParseError('%s:%d: clause needs a [label]: %s' % (path, ln, body))
                props = [p.strip() for p in (m.group(3) or '').split(',') if p.strip()]
                c = Clause(word, m.group(2), props, m.group(4), path, ln)
                cur.props.update(props)
                if word == 'requires':
                    cur.requires.append(c)
                elif word == 'ensures':
                    cur.ensures.append(c)
                elif word == 'assumes':
                    # a postcondition callers rely on that is NOT proved in the function: an explicit assumption
                    cur.assumes.append(c)
                elif word == 'invariant':
                    if curloop is None:
                        raise ParseError('%s:%d: invariant outside loop' % (path, ln))
                    curloop.invariants.append(c)
                elif curloop is not None:
                    curloop.asserts.append(c)
                else:
                    cur.asserts.append(c)
                last = c
            elif word == 'modifies':
                items = [] if rest in ('nothing', '') else [x.strip() for x in split_top(rest)]
                cl = [Clause('modifies', 'frame', [], x, path, ln) for x in items]
                if curloop is not None:
                    curloop.modifies.extend(cl)
                else:
                    cur.modifies = (cur.modifies or []) + cl
                last = None
            elif word == 'decreases':
                c = Clause('decreases', 'decreases', [], rest, path, ln)
                if curloop is not None:
                    curloop.decreases = c
                last = c
            elif word == 'let':
                m = re.match(r'^([A-Za-z_][A-Za-z0-9_]*)\s*=\s*(.*)$', rest)
                c = Clause('let', m.group(1), [], m.group(2), path, ln)
                if curloop is not None:
                    curloop.lets.append(c)
                else:
                    cur.lets.append(c)
                last = c
            elif word == 'external-below':
                cur.external_below = Clause('external-below', 'external-below', [], rest, path, ln)
                last = None
            elif word == 'assumespre':
                # `assumespre <callee> <label>`: at calls from this function, that precondition of the callee is ASSUMED
                # (written to the trusted base), not proved - for a fact this function cannot know
                ws = rest.split()
                cur.assumed_pre.add((ws[0], ws[1].strip('[]')))
                last = None
            elif word == 'calls':
                # the functions outside the module this function may call (closed list)
                cur.calls = (cur.calls or []) + rest.split()
                last = None
            elif word == 'unroll':
                # a BOUNDED check: every loop reached from this function (also in callees, whose bodies are then followed
                # instead of their contracts) is unrolled up to N iterations; a path that needs more is an error
                cur.unroll = int(rest.split()[0])
                cur.flags.add('bounded')
                last = None
            elif word in ('inline', 'trusted', 'pure', 'nosafety', 'safety', 'functional', 'deterministic'):
                cur.flags.add(word)
                if rest:
                    cur.flags.update(rest.split())
                last = None
            elif word == 'props':
                cur.props.update(p.strip() for p in rest.replace(',', ' ').split())
                last = None
            else:
                raise ParseError('%s:%d: unknown clause %r' % (path, ln, word))

    def get(self, pkg, short):
        return self.contracts.get((pkg, short))

    def frame_props(self, pkg):
        return tuple(sorted(self.pkg_frame.get(pkg, ())))

    def safety_props(self, pkg):
        return tuple(sorted(self.pkg_safety.get(pkg, ())))


def split_top(s):
    """split on commas that are not inside parentheses/brackets"""
    out, depth, cur = [], 0, ''
    for ch in s:
        if ch in '([':
            depth += 1
        elif ch in ')]':
            depth -= 1
        if ch == ',' and depth == 0:
            out.append(cur)
            cur = ''
        else:
            cur += ch
    if cur.strip():
        out.append(cur)
    return out
