"""gocv check: decide one property on /repo's current working tree.

  python -m gocv.check --property C04 [--tier quick|thorough]

Exit 0: every obligation attributed to the property was generated from the current SSA
and discharged.  Exit 1 + "VIOLATION property=<id> replay=<path>": an obligation failed
(not listed as an open known finding).  Exit 2 + "UNDECIDED ...": the tree could not be
loaded / a contract has no target function."""
import argparse
import hashlib
import json
import multiprocessing as mp
import os
import re
import subprocess
import sys
import time
import traceback

VERIF = os.environ.get('VERIF_DIR', '/verif')
REPO = os.environ.get('VERIF_REPO', '/repo')

_G = {}


def sh(cmd, **kw):
    return subprocess.run(cmd, shell=True, capture_output=True, text=True, **kw)


def repo_digest():
    """hash of all Go sources (incl. contract files) of the working tree: cache key of the SSA dump"""
    h = hashlib.sha256()
    for dirpath, dirs, files in os.walk(REPO):
        dirs[:] = sorted(d for d in dirs if not d.startswith('.'))
        for fn in sorted(files):
            if fn.endswith('.go') or fn in ('go.mod', 'go.sum'):
                p = os.path.join(dirpath, fn)
                h.update(p.encode())
                with open(p, 'rb') as f:
                    h.update(f.read())
    return h.hexdigest()[:24]


def export_ssa():
    """build the SSA dump of the current working tree (cached by content hash)"""
    cache = os.path.join(VERIF, '.cache')
    os.makedirs(cache, exist_ok=True)
    dg = repo_digest()
    exe = os.environ.get('VERIF_SSAEXPORT') or os.path.join(VERIF, 'bin', 'ssaexport')
    src = os.path.join(VERIF, 'engine', 'ssaexport', 'main.go')
    if not os.path.exists(exe) or (not os.environ.get('VERIF_SSAEXPORT') and os.path.getmtime(src) > os.path.getmtime(exe)):
        r = sh('cd %s/engine/ssaexport && GOFLAGS=-mod=mod GOPROXY=off GOSUMDB=off GOTOOLCHAIN=local go build -o %s .' % (VERIF, exe))
        if r.returncode != 0:
            raise RuntimeError('cannot build ssaexport: ' + r.stderr[-2000:])
    est = os.stat(exe)
    out = os.path.join(cache, 'ssa-%s-%x%x.json' % (dg, int(est.st_mtime) & 0xffffff, est.st_size & 0xffff))
    if os.path.exists(out) and os.path.getsize(out) > 0:
        return out, dg, 0.0, True
    t0 = time.time()
    tmp = out + '.tmp%d' % os.getpid()
    r = sh('%s -dir %s -o %s' % (exe, REPO, tmp))
    if r.returncode != 0:
        if os.path.exists(tmp):
            os.unlink(tmp)
        raise RuntimeError('SSA export failed (does the tree compile?):\n' + (r.stderr or r.stdout)[-3000:])
    os.replace(tmp, out)
    # keep the cache small
    files = sorted((os.path.getmtime(os.path.join(cache, f)), f) for f in os.listdir(cache) if f.startswith('ssa-'))
    for _, f in files[:-6]:
        try:
            os.unlink(os.path.join(cache, f))
        except OSError:
            pass
    return out, dg, time.time() - t0, False


# ----------------------------------------------------------------------------- attribution

def attribute(ex, contract, o, default_safety):
    """set of property ids an obligation counts for"""
    cprops = set(contract.props) if contract is not None else set()
    if o.kind == 'safe':
        return set(default_safety)
    if o.kind == 'frame':
        fp = set(_G['db'].frame_props(contract.pkg)) if (contract is not None and 'db' in _G) else set()
        return set(o.props) | ({'C11'} if 'C11' in cprops else set()) | cprops | fp
    if o.kind in ('invariant', 'assert', 'unwind'):
        # loop invariants and lemma steps support every postcondition of their function, whatever tag they carry: a check
        # that proved an `ensures` for one property while the invariant it rests on was only checked for another would
        # not be modular
        return set(o.props) | cprops | (set(default_safety) if not cprops else set())
    if o.props:
        return set(o.props)
    if o.kind == 'pre':
        # an untagged precondition protects the callee's own proof, its panic freedom included
        return cprops | set(default_safety)
    # untagged clauses of a contract without any tag (pure safety contracts) support the safety sweep
    return cprops or set(default_safety)


def worker(args):
    """verify one function; returns a picklable summary"""
    fname, prop, timeout_ms, seed, want_smt = args
    import z3
    from .exec import Executor, PathLimit
    from .model import Unsupported
    from .speceval import SpecError
    from .spec import ParseError
    from . import solve
    prog, db = _G['prog'], _G['db']
    t0 = time.time()
    res = {'fn': fname, 'obligations': [], 'error': None, 'trusted': [], 'notes': [], 'paths': 0, 'gen_s': 0.0}
    try:
        ex = Executor(prog, db)
        fn = prog.funcs[fname]
        contract = ex.contract_of(fn)
        sprops = db.safety_props(fn.pkg)
        obls = ex.verify(fn, safety_props=sprops, want_safety=bool(sprops) and not (contract is not None and 'nosafety' in contract.flags))
        res['gen_s'] = time.time() - t0
        res['paths'] = ex.npaths
        mine = []
        for o in obls:
            ps = attribute(ex, contract, o, sprops)
            if prop in ps or _G.get('tier') == 'thorough':
                # thorough: every obligation of every function the property's contracts rest on
                mine.append(o)
        # cover check: the precondition must be satisfiable (a contradictory requires proves everything)
        cov = solve.cover_check(ex, ex.cover.get('entry') or [])
        res['cover_entry'] = cov
        solve.discharge_all(ex, mine, timeout_ms, seed)
        for o in mine:
            rec = {'name': o.name, 'kind': o.kind, 'status': o.status, 'time': round(o.time, 4), 'solver': o.solver,
                   'bounded': (contract.unroll if (contract is not None and contract.unroll) else 0),
                   'line': o.line, 'note': o.note, 'model': o.model}
            if o.status != 'proved' and want_smt:
                try:
                    rec['smt2'] = solve.to_smt2(ex, o)[:200000]
                except Exception as e:
                    rec['smt2'] = '; could not render: %r' % (e,)
            res['obligations'].append(rec)
        res['trusted'] = sorted(ex.trusted)
        res['notes'] = ex.notes[:10]
        res['n_all'] = len(obls)
    except (Unsupported, SpecError, ParseError, PathLimit, KeyError, RecursionError) as e:
        res['error'] = '%s: %s' % (type(e).__name__, e)
        res['trace'] = traceback.format_exc()[-1500:]
    except Exception as e:
        res['error'] = 'engine error %s: %s' % (type(e).__name__, e)
        res['trace'] = traceback.format_exc()[-3000:]
    res['wall_s'] = time.time() - t0
    return res


def select_functions(prog, db, prop):
    """functions whose contract mentions the property, plus the property's safety sweep"""
    out = []
    missing = []
    from .exec import Executor
    for (pkg, short), c in db.contracts.items():
        if pkg == 'extern':
            continue
        if prop not in c.props and prop not in db.safety_props(pkg) and prop not in db.frame_props(pkg):
            continue
        # locate the function
        pk = pkg.rsplit('/', 1)[-1]
        cands = [f for f in prog.funcs.values() if f.pkg == pkg and _short_in_pkg(prog, f) == short]
        if not cands:
            missing.append('%s %s' % (pkg, short))
            continue
        if 'inline' in c.flags:
            continue
        out.append(cands[0].name)
    return sorted(set(out)), missing


def contract_closure(prog, db, fns):
    """the functions given plus, transitively, every callee that is used through its contract"""
    from .exec import Executor
    ex = Executor(prog, db)
    seen = set(fns)
    work = list(fns)
    while work:
        f = prog.funcs.get(work.pop())
        if f is None:
            continue
        for b in f.blocks:
            for ins in b['instrs']:
                callee = ins.get('callee') if ins.get('op') in ('Call', 'Go', 'Defer') else None
                if not callee or callee in seen:
                    continue
                f2 = prog.funcs.get(callee)
                if f2 is None:
                    continue
                c = ex.contract_of(f2)
                if c is None or 'inline' in c.flags or 'trusted' in c.flags:
                    continue
                seen.add(callee)
                work.append(callee)
    return sorted(seen)


def _short_in_pkg(prog, f):
    s = prog.shorten(f.name)
    pk = f.pkg.rsplit('/', 1)[-1] if f.pkg else ''
    return s.replace(pk + '.', '', 1) if pk else s


def load_known(path):
    if not os.path.exists(path):
        return []
    with open(path) as f:
        return json.load(f).get('findings', [])


def main(argv=None):
    ap = argparse.ArgumentParser()
    ap.add_argument('--property', required=True)
    ap.add_argument('--tier', default=os.environ.get('VERIF_TIER', 'quick'))
    ap.add_argument('--jobs', type=int, default=int(os.environ.get('VERIF_JOBS', '14')))
    ap.add_argument('--baseline', action='store_true', help='rewrite the obligation ledger for this property')
    ap.add_argument('--verbose', action='store_true')
    a = ap.parse_args(argv)
    prop = a.property
    tier = 'thorough' if a.tier == 'thorough' else 'quick'
    seed = int(os.environ.get('VERIF_SEED', '0') or 0)
    t_start = time.time()
    sys.setrecursionlimit(200000)
    ev_path = os.path.join(VERIF, 'evidence', '%s.json' % prop)
    os.makedirs(os.path.dirname(ev_path), exist_ok=True)
    try:
        if os.path.exists(ev_path):
            os.unlink(ev_path)
    except OSError:
        pass

    from .ssa import Program
    from .spec import ContractDB, ParseError
    try:
        ssa_path, digest, exp_s, cached = export_ssa()
    except RuntimeError as e:
        print('UNDECIDED property=%s reason=%s' % (prop, str(e).replace('\n', ' | ')[:1500]))
        return 2
    prog = Program(ssa_path)
    db = ContractDB()
    try:
        db.load_dir(REPO, prog.module)
    except ParseError as e:
        print('UNDECIDED property=%s reason=contract file: %s' % (prop, e))
        return 2
    _G['prog'], _G['db'] = prog, db
    fns, missing = select_functions(prog, db, prop)
    if missing:
        print('UNDECIDED property=%s reason=contract target(s) not found in the tree: %s' % (prop, '; '.join(missing)))
        return 2
    if not fns:
        print('UNDECIDED property=%s reason=no function under contract for this property' % prop)
        return 2
    timeout_ms = 20000 if tier == 'quick' else 60000
    _G['tier'] = tier
    if tier == 'thorough':
        fns = contract_closure(prog, db, fns)
    jobs = [(f, prop, timeout_ms, seed, True) for f in fns]
    ctx = mp.get_context('fork')
    with ctx.Pool(min(a.jobs, len(jobs))) as pool:
        results = pool.map(worker, jobs, chunksize=1)

    # ------------------------------------------------------------------ aggregate
    agg = {}
    by_solver = {}
    solver_wall = 0.0
    trusted = set()
    engine_errors = []
    cover_bad = []
    samples = []
    n_inst = 0
    n_inst_ok = 0
    for r in results:
        if r['error']:
            engine_errors.append((r['fn'], r['error'], r.get('trace', '')))
            continue
        if r.get('cover_entry') == 'unsat':
            cover_bad.append(r['fn'])
        trusted.update(r['trusted'])
        for o in r['obligations']:
            n_inst += 1
            e = agg.setdefault(o['name'], {'instances': 0, 'proved': 0, 'time': 0.0, 'bad': [], 'kind': o['kind'], 'bounded': o.get('bounded', 0)})
            e['instances'] += 1
            e['time'] += o['time']
            solver_wall += o['time']
            sv = by_solver.setdefault(o['solver'] or 'none', {'count': 0, 'seconds': 0.0})
            sv['count'] += 1
            sv['seconds'] += o['time']
            if o['status'] == 'proved':
                e['proved'] += 1
                n_inst_ok += 1
            else:
                e['bad'].append(o)
    names = sorted(agg)
    failed = [n for n in names if agg[n]['bad']]

    # ------------------------------------------------------------------ ledger
    ledger_path = os.path.join(VERIF, 'obligations.baseline.json')
    ledger = {}
    if os.path.exists(ledger_path):
        with open(ledger_path) as f:
            ledger = json.load(f)
    if a.baseline:
        ledger[prop] = sorted(n for n in names if not agg[n]['bad'])
        with open(ledger_path, 'w') as f:
            json.dump(ledger, f, indent=0, sort_keys=True)
    base = set(ledger.get(prop, []))
    # site ordinals (`call@9`, `nil@3`) shift when an unrelated call or dereference is added in front of a site: the
    # ledger is compared with the ordinals left out, so that only the disappearance of a whole kind of obligation of
    # a function (or of a labelled clause) counts as vanished
    def _norm(n):
        return re.sub(r'@\d+', '@', n)
    have = {_norm(n) for n in names}
    # only obligations that stem from a labelled clause of the contract text (ensures / invariant / assert) must keep
    # existing: safety, precondition and frame obligations belong to sites of the code and legitimately move or
    # disappear when code is moved into a helper or removed
    def _from_clause(n):
        k = n.split('#', 1)[-1]
        return k.startswith('ensures:') or k.startswith('invariant:') or k.startswith('assert:')
    vanished = sorted(n for n in base if _from_clause(n) and _norm(n) not in have) if base else []

    # ------------------------------------------------------------------ known findings
    known = [k for k in load_known(os.path.join(VERIF, 'known_findings.json')) if k.get('property') == prop and k.get('status') == 'open']
    known_by_obl = {}
    for k in known:
        known_by_obl.setdefault(k['obligation'], []).append(k)

    violations = []
    known_hits = []
    replay_dir = os.path.join(VERIF, 'replays', prop)
    for n in failed:
        if n in known_by_obl:
            for k in known_by_obl[n]:
                known_hits.append(k)
            continue
        violations.append(n)

    exit_code = 0
    lines = []
    for k in known_hits:
        lines.append('KNOWN-FINDING: property=%s %s %s' % (prop, k['obligation'], k.get('what', '')))
    if engine_errors:
        # an obligation set that cannot be generated any more: the functions verified on the unchanged tree
        for (fn, err, tr) in engine_errors:
            os.makedirs(replay_dir, exist_ok=True)
            rp = os.path.join(replay_dir, 'engine-%s.json' % hashlib.sha1(fn.encode()).hexdigest()[:10])
            with open(rp, 'w') as f:
                json.dump({'property': prop, 'function': fn, 'obligation': prog.shorten(fn) + '#generate',
                           'verifier_output': err, 'trace': tr,
                           'explanation': 'the obligations of this function could not be generated from the current source '
                                          '(construct outside the verifier subset or broken contract); on the unchanged tree they are generated and discharged'}, f, indent=1)
            lines.append('VIOLATION property=%s replay=%s obligation=%s#generate no-failing-input-found' % (prop, rp, prog.shorten(fn)))
            exit_code = 1
    if cover_bad:
        for fn in cover_bad:
            lines.append('UNDECIDED property=%s reason=contradictory precondition in contract of %s' % (prop, prog.shorten(fn)))
        exit_code = max(exit_code, 2)
    if violations:
        from . import replay as rpl
        os.makedirs(replay_dir, exist_ok=True)
        for n in violations:
            bad = agg[n]['bad'][0]
            rp = os.path.join(replay_dir, hashlib.sha1(n.encode()).hexdigest()[:12] + '.json')
            info = rpl.make_replay(prog, prop, n, bad, rp, REPO)
            suffix = '' if info.get('confirmed') else ' no-failing-input-found'
            lines.append('VIOLATION property=%s replay=%s obligation=%s%s' % (prop, rp, n, suffix))
        exit_code = 1
    if vanished and not violations and not engine_errors:
        os.makedirs(replay_dir, exist_ok=True)
        rp = os.path.join(replay_dir, 'vanished.json')
        with open(rp, 'w') as f:
            json.dump({'property': prop, 'obligation': vanished[0], 'vanished': vanished,
                       'explanation': 'obligations discharged on the unchanged tree are no longer generated: the code they '
                                      'constrain (call site, loop, return) has disappeared'}, f, indent=1)
        lines.append('VIOLATION property=%s replay=%s obligation=%s no-failing-input-found' % (prop, rp, vanished[0]))
        exit_code = 1

    # ------------------------------------------------------------------ evidence
    for n in names[:3] + failed[:3]:
        e = agg[n]
        samples.append({'obligation': n, 'instances': e['instances'], 'proved': e['proved'], 'seconds': round(e['time'], 3)})
    wall = time.time() - t_start
    # obligations of BOUNDED checks (functions whose contract says `unroll N`) are reported apart and never counted as proved
    bounded_names = [n for n in names if agg[n].get('bounded')]
    n_ob = len(names) - len(bounded_names)
    n_dis = len([n for n in names if not agg[n]['bad'] and not agg[n].get('bounded')])
    level = 'proof'
    evidence = {
        'property_id': prop,
        'tier': tier,
        'seed': seed,
        'level': level,
        'coverage': {
            'obligations': n_ob,
            'discharged': n_dis,
            'obligation_instances': n_inst,
            'instances_discharged': n_inst_ok,
            'checker_cmd': 'python3-vt -m gocv.check --property %s --tier %s' % (prop, tier),
            'bounded_checks': {
                'note': 'NOT proofs: the functions named here are harnesses verified with every loop unrolled up to the stated number of iterations (unwinding assertion included); they stand in where no contract was proved',
                'obligations': len(bounded_names),
                'discharged': len([n for n in bounded_names if not agg[n]['bad']]),
                'bounds': sorted({'%s: loops unrolled up to %d iterations' % (n.split('#')[0], agg[n]['bounded']) for n in bounded_names}),
            },
            'trusted_base': sorted(trusted) + TRUSTED_ALWAYS,
            'functions_under_contract': [prog.shorten(f) for f in fns],
            'paths': sum(r.get('paths', 0) for r in results),
            'by_solver': {k: {'count': v['count'], 'seconds': round(v['seconds'], 3)} for k, v in by_solver.items()},
            'solver_wall_s': round(solver_wall, 3),
            'ssa_export_s': round(exp_s, 2),
            'ssa_cached': cached,
            'source_digest': digest,
            'samples': samples,
            'slowest': sorted(((round(agg[n]['time'], 2), agg[n]['instances'], n) for n in names), reverse=True)[:12],
            'failed_obligations': failed,
            'known_findings_matched': [k['obligation'] for k in known_hits],
            'engine_errors': [(prog.shorten(f), e) for (f, e, _) in engine_errors],
            'cover_checks': {'entry_satisfiable': len(results) - len(cover_bad), 'contradictory': cover_bad},
            'baseline_obligations': len(base),
            'vanished_obligations': vanished,
        },
        'assumptions': list(TRUSTED_ALWAYS) + sorted(t for t in trusted if t.startswith('ASSUMED') or t.startswith('assumed axiom') or t.startswith('trusted contract') or t.startswith('T3')),
        'wall_s': round(wall, 2),
        'violations': len(violations) + len(engine_errors) + (1 if (vanished and not violations and not engine_errors) else 0),
    }
    with open(ev_path, 'w') as f:
        json.dump(evidence, f, indent=1)
    for ln in lines:
        print(ln)
    print('property=%s tier=%s functions=%d obligations=%d discharged=%d instances=%d wall=%.1fs exit=%d' %
          (prop, tier, len(fns), n_ob, n_dis, n_inst, wall, exit_code))
    if a.verbose or exit_code:
        for n in failed:
            b = agg[n]['bad'][0]
            print('  FAILED %s: %s %s (line %s) model=%s' % (n, b['status'], b.get('note', ''), b.get('line'),
                                                             {k: v for k, v in (b.get('model') or {}).items() if k != '_decls'}))
        for (fn, err, tr) in engine_errors:
            print('  ENGINE %s: %s' % (prog.shorten(fn), err))
            if a.verbose:
                print(tr)
    return exit_code


TRUSTED_ALWAYS = [
    'T0: the verifier itself (ssaexport + gocv SSA->SMT translation) and z3',
    'A1: Go int arithmetic is treated as mathematical integers',
    'A2: append always copies; slices are whole array objects starting at index 0',
    'A3: big.Int/big.Rat struct copies are value copies (limb sharing not modelled)',
    'A4: the AST is a finite tree of distinct nodes',
]

if __name__ == '__main__':
    sys.exit(main())
