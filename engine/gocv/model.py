"""Memory model: sorts, type layouts, the Any datatype for interface values,
heap arrays (Burstall style: one SMT array per (type, leaf path)), values."""
import z3

BIGINT_UNDER = None  # filled by Model.__init__
BIGRAT_UNDER = None


class Unsupported(Exception):
    pass


def _pattern_ok(p):
    stack = [p]
    seen = set()
    while stack:
        x = stack.pop()
        i = x.get_id()
        if i in seen:
            continue
        seen.add(i)
        if z3.is_quantifier(x):
            return False
        if z3.is_app(x) and x.decl().kind() in (z3.Z3_OP_ITE, z3.Z3_OP_AND, z3.Z3_OP_OR, z3.Z3_OP_NOT, z3.Z3_OP_IMPLIES):
            return False
        stack.extend(x.children())
    return True


def _qid(vs, patterns):
    """a readable name for the quantifier (shows up in z3's instantiation profile)"""
    try:
        if patterns:
            h = patterns[0]
            while z3.is_app(h) and h.decl().kind() == z3.Z3_OP_SELECT:
                h = h.arg(0)
            import re as _re
            return _re.sub(r'[^A-Za-z0-9_.]', '_', 'q_%s_%s' % (vs[0], h.decl().name() if z3.is_app(h) else 'x'))[:60]
        import re as _re
        return _re.sub(r'[^A-Za-z0-9_.]', '_', 'q_%s_nopat' % vs[0])
    except Exception:
        return 'q'


def forall(vs, body, patterns=None):
    """ForAll with patterns when they are valid patterns (selects over lambdas reduce to ite and are not)"""
    if patterns:
        ok = [p for p in patterns if _pattern_ok(p)]
        if ok:
            try:
                return z3.ForAll(vs, body, patterns=ok, qid=_qid(vs, ok))
            except z3.Z3Exception:
                pass
    return z3.ForAll(vs, body, qid=_qid(vs, None))


def add0(off, i):
    """off + i, without the arithmetic when off is the literal 0 (keeps quantifier patterns matchable)"""
    if z3.is_int_value(off) and off.as_long() == 0:
        return i
    return off + i


class Val:
    """A Go value: its static type key and the flat list of SMT leaves.
    `ptr` carries fat-pointer info for pointer values that are not plain object refs.
    `py` carries executor-level objects (closures, function names, tuples)."""
    __slots__ = ('t', 'leaves', 'ptr', 'py')

    def __init__(self, t, leaves, ptr=None, py=None):
        self.t = t
        self.leaves = leaves
        self.ptr = ptr
        self.py = py

    def __repr__(self):
        return 'Val(%s,%s%s)' % (self.t, self.leaves, ',ptr=%r' % (self.ptr,) if self.ptr else '')


class Ptr:
    """Fat pointer. kind 'obj': location = heap (T, path+leaf)[ref];
    kind 'elem': location = array heap (E, path+leaf)[arr][idx]."""
    __slots__ = ('kind', 'T', 'path', 'ref', 'idx')

    def __init__(self, kind, T, path, ref, idx=None):
        self.kind = kind
        self.T = T
        self.path = path
        self.ref = ref
        self.idx = idx

    def __repr__(self):
        return 'Ptr(%s,%s,%r,%s,%s)' % (self.kind, self.T, self.path, self.ref, self.idx)


class Closure:
    def __init__(self, fn, bindings):
        self.fn = fn
        self.bindings = bindings


class Model:
    def __init__(self, prog):
        self.prog = prog
        self.types = prog.types
        self.Str = z3.DeclareSort('Str')
        self.Int = z3.IntSort()
        self.Bool = z3.BoolSort()
        self.Real = z3.RealSort()
        self._layout = {}
        self._canon = {}
        self._canon_used = {}
        self._canon_ids = {}
        self._strconst = {}
        self.slen = z3.Function('slen', self.Str, self.Int)
        self.srunes = z3.Function('srunes', self.Str, self.Int)
        self.sconcat = z3.Function('sconcat', self.Str, self.Str, self.Str)
        self.ssub = z3.Function('ssub', self.Str, self.Int, self.Int, self.Str)
        self.sbyte = z3.Function('sbyte', self.Str, self.Int, self.Int)
        self.fresh_n = 0
        self.ufs = {}
        big = 'math/big.Int'
        rat = 'math/big.Rat'
        self.bigint_under = self.types[big]['under'] if big in self.types else None
        self.bigrat_under = self.types[rat]['under'] if rat in self.types else None
        self._build_any()
        self.empty = self.strconst('')

    # ------------------------------------------------------------ helpers
    def fresh(self, base, sort):
        self.fresh_n += 1
        return z3.Const('%s!%d' % (base, self.fresh_n), sort)

    def uf(self, name, *sorts):
        if name not in self.ufs:
            self.ufs[name] = z3.Function(name, *sorts)
        return self.ufs[name]

    def strconst(self, s):
        if s not in self._strconst:
            c = z3.Const('str_%d' % len(self._strconst), self.Str)
            self._strconst[s] = c
        return self._strconst[s]

    def string_axioms(self):
        """distinctness and lengths of interned string constants"""
        ax = []
        cs = list(self._strconst.items())
        if len(cs) > 1:
            ax.append(z3.Distinct(*[c for _, c in cs]))
        for s, c in cs:
            ax.append(self.slen(c) == len(s.encode('utf-8')))
            ax.append(self.srunes(c) == len(s))
        if self.regex_hook is not None:
            ax.extend(self.regex_hook(cs))
        return ax

    regex_hook = None

    def sort(self, name):
        return {'Int': self.Int, 'Bool': self.Bool, 'Real': self.Real, 'Str': self.Str, 'Any': self.Any}[name]

    def zero(self, sortname):
        if sortname == 'Int':
            return z3.IntVal(0)
        if sortname == 'Bool':
            return z3.BoolVal(False)
        if sortname == 'Real':
            return z3.RealVal(0)
        if sortname == 'Str':
            return self.empty
        if sortname == 'Any':
            return self.Any.nil
        raise KeyError(sortname)

    # ------------------------------------------------------------ type structure
    def under(self, k):
        return self.prog.under(k)

    def kind(self, k):
        return self.types[self.under(k)]['kind']

    def is_bigint(self, k):
        return self.bigint_under is not None and self.kind(k) == 'struct' and self.under(k) == self.bigint_under

    def is_bigrat(self, k):
        return self.bigrat_under is not None and self.kind(k) == 'struct' and self.under(k) == self.bigrat_under

    def canon(self, k):
        """canonical heap key of a type: big ints/rats collapse, everything else by underlying type"""
        if self.is_bigint(k):
            return 'bigint'
        if self.is_bigrat(k):
            return 'bigrat'
        c = self._canon.get(k)
        if c is None:
            t = self.types[k]
            if t['kind'] == 'named' and self.kind(k) == 'struct':
                pk = t.get('pkg', '')
                c = (pk.rsplit('/', 1)[-1] + '.' if pk else '') + t['name']
                if c in self._canon_used and self._canon_used[c] != k:
                    c = k
                self._canon_used[c] = k
            else:
                u = self.under(k)
                c = self._canon.get(u)
                if c is None:
                    ut = self.types[u]
                    if ut['kind'] == 'basic':
                        c = ut['name']
                    elif len(u) <= 40:
                        c = u
                    else:
                        c = 'T%d' % len(self._canon_ids)
                        self._canon_ids[c] = u
                    self._canon[u] = c
            self._canon[k] = c
        return c

    def uncanon(self, c):
        """type key of a canonical heap type name"""
        if c in self._canon_used:
            return self._canon_used[c]
        if c in self._canon_ids:
            return self._canon_ids[c]
        if c in self.types:
            return c
        for k, v in self._canon.items():
            if v == c:
                return k
        raise KeyError(c)

    def elem(self, k):
        return self.types[self.under(k)]['elem']

    def layout(self, k):
        """list of (path, sortname, typekey)"""
        if k in self._layout:
            return self._layout[k]
        self._layout[k] = None  # recursion guard
        t = self.types[k]
        kind = t['kind']
        if self.is_bigint(k):
            out = [('', 'Int', k)]
        elif self.is_bigrat(k):
            out = [('', 'Real', k)]
        elif kind == 'named':
            out = [(p, s, (k if p == '' and self.types[self.under(k)]['kind'] != 'struct' else tk)) for (p, s, tk) in self.layout(t['under'])]
        elif kind == 'basic':
            n = t['name']
            if n in ('bool', 'untyped bool'):
                out = [('', 'Bool', k)]
            elif n in ('string', 'untyped string'):
                out = [('', 'Str', k)]
            elif n in ('float64', 'float32', 'untyped float'):
                out = [('', 'Real', k)]
            elif n == 'untyped nil':
                out = [('', 'Int', k)]
            elif n == 'invalid type':
                out = []
            else:
                out = [('', 'Int', k)]
        elif kind in ('pointer', 'map', 'chan', 'signature'):
            out = [('', 'Int', k)]
        elif kind == 'slice':
            out = [('#arr', 'Int', k), ('#off', 'Int', k), ('#len', 'Int', k)]
        elif kind == 'interface':
            out = [('', 'Any', k)]
        elif kind == 'struct':
            out = []
            for f in t.get('fields') or []:
                sub = self.layout(f['t'])
                if sub is None:
                    raise Unsupported('recursive struct layout ' + k)
                for (p, s, tk) in sub:
                    out.append((f['n'] + ('.' + p if p and not p.startswith('#') else p), s, tk))
        elif kind == 'array':
            n = t.get('len', 0)
            sub = self.layout(t['elem'])
            if n > 8:
                out = [('', 'Int', k)]  # opaque
            else:
                out = []
                for i in range(n):
                    for (p, s, tk) in sub:
                        out.append(('[%d]' % i + ('.' + p if p and not p.startswith('#') else p), s, tk))
        elif kind == 'tuple':
            out = []
            for i, e in enumerate(t.get('elems') or []):
                for (p, s, tk) in self.layout(e):
                    out.append(('%d:' % i + p, s, tk))
        else:
            out = [('', 'Int', k)]
        self._layout[k] = out
        return out

    def field_slice(self, k, fidx):
        """(start, end, field type) of field #fidx inside the layout of struct type k"""
        t = self.types[self.under(k)]
        pos = 0
        for i, f in enumerate(t['fields']):
            n = len(self.layout(f['t']))
            if i == fidx:
                return pos, pos + n, f['t'], f['n']
            pos += n
        raise IndexError(fidx)

    def field_index(self, k, name):
        t = self.types[self.under(k)]
        for i, f in enumerate(t.get('fields') or []):
            if f['n'] == name:
                return i
        return None

    def zero_val(self, k):
        return Val(k, [self.zero(s) for (_, s, _) in self.layout(k)])

    def fresh_val(self, k, base='v'):
        return Val(k, [self.fresh(base, self.sort(s)) for (_, s, _) in self.layout(k)])

    # ------------------------------------------------------------ Any datatype
    def _build_any(self):
        """One constructor per concrete type that can be stored in an interface."""
        prog = self.prog
        cands = set()
        for f in prog.funcs.values():
            for b in f.blocks:
                for ins in b['instrs']:
                    if ins['op'] == 'MakeInterface':
                        cands.add(ins['args'][0]['t'])
                    elif ins['op'] == 'TypeAssert':
                        at = ins['assert_t']
                        if self.kind(at) != 'interface':
                            cands.add(at)
        for k, t in list(self.types.items()):
            for i in t.get('impls') or []:
                cands.add(i)
        # pointers to the AST / checker / interpreter structs (atoms of the wf predicate)
        for k, t in list(self.types.items()):
            if t['kind'] == 'pointer':
                e = self.types.get(t['elem'])
                if e and e['kind'] == 'named' and self.kind(t['elem']) == 'struct' and \
                        any(e.get('pkg', '').endswith(sfx) for sfx in ('/internal/parser', '/internal/analysis', '/internal/interpreter')):
                    cands.add(k)
        cands = sorted(c for c in cands if self.kind(c) != 'interface')
        self.any_types = cands
        self.any_index = {c: i for i, c in enumerate(cands)}
        Any = z3.Datatype('Any')
        Any.declare('nil')
        # dynamic values of types unknown to the module (opaque): a type id and an identity
        Any.declare('other', ('other_ty', self.Int), ('other_id', self.Int))
        self._any_fields = {}
        for i, c in enumerate(cands):
            fields = []
            for j, (p, s, tk) in enumerate(self.layout(c)):
                srt = Any if s == 'Any' else self.sort_noany(s)
                fields.append(('c%d_f%d' % (i, j), srt))
            self._any_fields[c] = [n for n, _ in fields]
            Any.declare('mk%d' % i, *fields)
        self.Any = Any.create()

    def sort_noany(self, s):
        return {'Int': self.Int, 'Bool': self.Bool, 'Real': self.Real, 'Str': self.Str}[s]

    def any_make(self, k, leaves):
        if k not in self.any_index:
            raise Unsupported('type %s cannot be boxed (not in Any)' % k)
        ctor = getattr(self.Any, 'mk%d' % self.any_index[k])
        return ctor(*leaves) if leaves else ctor

    def any_is(self, k, x):
        if k not in self.any_index:
            return z3.BoolVal(False)
        return getattr(self.Any, 'is_mk%d' % self.any_index[k])(x)

    def any_get(self, k, x):
        i = self.any_index[k]
        return [getattr(self.Any, n)(x) for n in self._any_fields[k]]

    def implements(self, concrete, iface):
        """does concrete type key implement interface type key (by method names)"""
        it = self.types[self.under(iface)]
        need = set(it.get('methods') or [])
        if not need:
            return True
        ct = self.types[concrete]
        have = set()
        if ct['kind'] == 'pointer':
            e = self.types[ct['elem']]
            have = set(e.get('ptrmethods') or []) | set(e.get('methods') or [])
        else:
            have = set(ct.get('methods') or [])
        return need <= have

    # ------------------------------------------------------------ heaps
    def heap_sort(self, name):
        """name = 'H|<canon type>|<leafpath>|<sort>'  object heap: Int -> sort
                  'A|<canon elem type>|<leafpath>|<sort>'  slice backing: Int -> (Int -> sort)
                  'MD|<maptype>'  map domain: Int -> (K -> Bool)
                  'MV|<maptype>|<leafpath>|<sort>'  map values: Int -> (K -> sort)"""
        parts = name.split('|')
        if parts[0] == 'H':
            return z3.ArraySort(self.Int, self.sort(parts[3]))
        if parts[0] == 'A':
            return z3.ArraySort(self.Int, z3.ArraySort(self.Int, self.sort(parts[3])))
        if parts[0] == 'MD':
            ks = self.map_key_sort(parts[1])
            return z3.ArraySort(self.Int, z3.ArraySort(ks, self.Bool))
        if parts[0] == 'MV':
            ks = self.map_key_sort(parts[1])
            return z3.ArraySort(self.Int, z3.ArraySort(ks, self.sort(parts[3])))
        raise KeyError(name)

    def map_key_sort(self, maptype):
        kt = self.types[self.under(maptype)]['key']
        lay = self.layout(kt)
        if len(lay) != 1:
            raise Unsupported('map key type ' + kt)
        return self.sort(lay[0][1])
