#!/usr/bin/env python3
"""Applies every vetted seeded change under /verif/seeded/<id>/ to /repo (git apply), runs the quick check of
the property it breaks, undoes the change (git checkout), and records which obligation caught it.
usage: run_seeded.py [id ...]"""
import json
import os
import subprocess
import sys
import time


def sh(cmd, timeout=1500):
    p = subprocess.run(cmd, shell=True, capture_output=True, text=True, timeout=timeout)
    return p.returncode, p.stdout + p.stderr


def main():
    ids = sys.argv[1:] or sorted(d for d in os.listdir('/verif/seeded') if os.path.isdir('/verif/seeded/' + d))
    path = '/verif/seeded/RESULTS.json'
    results = json.load(open(path)) if os.path.exists(path) else {}
    rc, out = sh('git -C /repo status --porcelain --untracked-files=no')
    if out.strip():
        print('refusing: /repo has uncommitted tracked changes:\n' + out)
        return 2
    for mid in ids:
        meta = json.load(open('/verif/seeded/%s/meta.json' % mid))
        props = [meta['breaks_property']] + meta.get('also_check', [])
        rc, out = sh('git -C /repo apply /verif/seeded/%s/patch.diff' % mid)
        if rc:
            results[mid] = {'error': 'patch does not apply: ' + out[-300:]}
            print(mid, 'patch does not apply')
            continue
        try:
            entry = {}
            for prop in props:
                t0 = time.time()
                rc, out = sh('/verif/check.sh %s quick' % prop)
                viol = [l for l in out.splitlines() if l.startswith('VIOLATION')]
                entry[prop] = {'exit': rc, 'caught': rc == 1 and bool(viol), 'wall_s': round(time.time() - t0, 1),
                               'obligations': [l.split('obligation=')[1].split()[0] for l in viol if 'obligation=' in l][:8],
                               'no_input': all('no-failing-input-found' in l for l in viol) if viol else None}
                print(mid, prop, 'exit', rc, 'caught' if entry[prop]['caught'] else 'MISSED', entry[prop]['obligations'][:3], flush=True)
            results[mid] = entry
        finally:
            sh('git -C /repo checkout -- .')
        with open(path, 'w') as f:
            json.dump(results, f, indent=1, sort_keys=True)
    return 0


if __name__ == '__main__':
    sys.exit(main())
