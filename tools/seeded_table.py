#!/usr/bin/env python3
"""Writes the table of section 8 of DESIGN.md from seeded/RESULTS.json and the meta files
(between the markers <!-- seeded:begin --> and <!-- seeded:end -->, or in place of the line SEEDED-TABLE)."""
import json
import os
import re

V = '/verif'


def first_line(path, n=160):
    if not os.path.exists(path):
        return ''
    for l in open(path):
        l = l.strip().lstrip('#').strip()
        if l and not l.lower().startswith('c0') and not l.lower().startswith('c1') and not l.lower().startswith('c2'):
            return l[:n]
    return ''


def main():
    res = json.load(open(V + '/seeded/RESULTS.json'))
    rows = ['| Change | Property | What it does | Caught by (failing obligations) |', '|---|---|---|---|']
    caught = missed = 0
    for mid in sorted(d for d in os.listdir(V + '/seeded') if os.path.isdir(V + '/seeded/' + d)):
        meta = json.load(open('%s/seeded/%s/meta.json' % (V, mid)))
        prop = meta['breaks_property']
        what = first_line('%s/seeded/%s/notes.md' % (V, mid)) or meta.get('origin', '')[:120]
        r = (res.get(mid) or {}).get(prop)
        if r is None:
            verdict = 'not run'
        elif r.get('caught'):
            caught += 1
            obl = ', '.join('`%s`' % o.split(').')[-1].split('interpreter.')[-1] for o in r['obligations'][:2])
            verdict = obl or 'violation reported'
        else:
            missed += 1
            verdict = '**MISSED** (exit %s)' % r.get('exit')
        rows.append('| %s | %s | %s | %s |' % (mid, prop, what.replace('|', '/'), verdict))
    rows.append('')
    rows.append('%d caught, %d missed. Every catch is reported with `no-failing-input-found` (no concrete replay).' % (caught, missed))
    table = '\n'.join(rows)
    p = V + '/DESIGN.md'
    s = open(p).read()
    block = '<!-- seeded:begin -->\n' + table + '\n<!-- seeded:end -->'
    if 'SEEDED-TABLE' in s:
        s = s.replace('SEEDED-TABLE', block)
    else:
        s = re.sub(r'<!-- seeded:begin -->.*?<!-- seeded:end -->', lambda m: block, s, flags=re.S)
    open(p, 'w').write(s)
    print('%d caught, %d missed' % (caught, missed))


if __name__ == '__main__':
    main()
