#!/usr/bin/env python3
"""Vets a seeded change delivered under /tmp/mutout/<id>/ in a scratch worktree of /repo:
   compiles, existing tests pass with it, demonstration fails with it and passes without it.
   On success copies it to /verif/seeded/<id>/ with meta.json.   usage: vet_mutant.py <id> [property]"""
import json
import os
import re
import shutil
import subprocess
import sys

ENV = dict(os.environ, GOFLAGS='-mod=mod', GOPROXY='off', GOSUMDB='off', GOTOOLCHAIN='local')


def sh(cmd, cwd=None, timeout=600):
    p = subprocess.run(cmd, shell=True, cwd=cwd, env=ENV, capture_output=True, text=True, timeout=timeout)
    return p.returncode, (p.stdout + p.stderr)


def main():
    mid = sys.argv[1]
    prop = sys.argv[2] if len(sys.argv) > 2 else mid[:3]
    src = '/tmp/mutout/%s' % mid
    wt = '/tmp/mw_%s' % mid
    sh('git -C /repo worktree remove --force %s' % wt)
    rc, out = sh('git -C /repo worktree add --detach %s HEAD' % wt)
    if rc:
        print('worktree failed', out)
        return 2
    res = {'id': mid, 'property': prop}
    try:
        demo_txt = open(os.path.join(src, 'demo.txt')).read()
        tests = [f for f in os.listdir(src) if f.endswith('_test.go')]
        m0 = re.search(r'(internal/[a-z]+)/seeded_', demo_txt)
        m = m0 or re.search(r'(internal/[a-z]+)/', demo_txt)
        dest_dir = m.group(1) if (m and 'root' not in demo_txt.lower().split('internal/')[0][-200:]) else '.'
        if m0:
            dest_dir = m0.group(1)
        elif re.search(r'(?i)(placement|place|copy)[^\n]*root', demo_txt):
            dest_dir = '.'
        m2 = re.search(r"-run[ =]+'?([A-Za-z0-9_|]+)'?", demo_txt)
        runpat = m2.group(1) if m2 else 'TestSeeded'
        pkg = './' + dest_dir if dest_dir != '.' else '.'
        rc, out = sh('git apply %s/patch.diff' % src, cwd=wt)
        if rc:
            print('patch does not apply:', out[:500])
            res['ok'] = False
            return 1
        rc, out = sh('go build ./... && go test -vet=off -count=1 ./...', cwd=wt)
        res['suite_with_patch'] = 'pass' if rc == 0 else 'FAIL'
        for t in tests:
            shutil.copy(os.path.join(src, t), os.path.join(wt, dest_dir, t))
        rc_with, out_with = sh('go test -vet=off -count=1 -run %s %s' % (runpat, pkg), cwd=wt)
        res['demo_with_patch'] = 'fail' if rc_with != 0 else 'PASS(!)'
        sh('git apply -R %s/patch.diff' % src, cwd=wt)
        rc_wo, out_wo = sh('go test -vet=off -count=1 -run %s %s' % (runpat, pkg), cwd=wt)
        res['demo_without_patch'] = 'pass' if rc_wo == 0 else 'FAIL(!)'
        res['ok'] = (res['suite_with_patch'] == 'pass' and rc_with != 0 and rc_wo == 0)
        res['demo_cmd'] = 'go test -vet=off -count=1 -run %s %s' % (runpat, pkg)
        res['demo_dir'] = dest_dir
        if res['ok']:
            dst = '/verif/seeded/%s' % mid
            os.makedirs(dst, exist_ok=True)
            shutil.copy(os.path.join(src, 'patch.diff'), dst)
            for t in tests:
                shutil.copy(os.path.join(src, t), dst)
            for extra in ('notes.md', 'demo.txt'):
                if os.path.exists(os.path.join(src, extra)):
                    shutil.copy(os.path.join(src, extra), dst)
            notes = open(os.path.join(src, 'notes.md')).read() if os.path.exists(os.path.join(src, 'notes.md')) else ''
            meta = {'id': mid, 'breaks_property': prop, 'origin': 'independent sub-agent given only the property text',
                    'needs_to_manifest': notes[:1500],
                    'vetted': {'compiles_and_existing_tests_pass_with_patch': True, 'demo_fails_with_patch': True,
                               'demo_passes_without_patch': True, 'demo_cmd': res['demo_cmd'], 'demo_placed_in': dest_dir,
                               'how': 'tools/vet_mutant.py in a scratch git worktree of /repo (removed afterwards)'}}
            with open(os.path.join(dst, 'meta.json'), 'w') as f:
                json.dump(meta, f, indent=1)
        else:
            res['out_with'] = out_with[-600:]
            res['out_without'] = out_wo[-600:]
    finally:
        sh('git -C /repo worktree remove --force %s' % wt)
        shutil.rmtree(wt, ignore_errors=True)
    print(json.dumps(res))
    return 0 if res.get('ok') else 1


if __name__ == '__main__':
    sys.exit(main())
