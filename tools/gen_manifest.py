#!/usr/bin/env python3
"""Regenerates /verif/MANIFEST.json from the table below (one entry per property)."""
import json
import subprocess

CLAIMED = {
    'C02': dict(
        text='Deductive proof, for all inputs, of the contracts that carry positivity and naming of postings: zero amounts are '
             'never queued (pushSender/pushReceiver), every queued sender/receiver is strictly positive with an owned big integer '
             '(leaf draws, trySendingUpTo, sendAll, receiveFrom, makeAllotment), Reconcile keeps both stacks positive and every '
             'posting positive, of the requested asset and never addressed to the kept marker.',
        note='Contracts are proved function by function on the SSA of the working tree; callers use callee contracts only. '
             'Trusted: math/big library contracts, allocation model (A2/A3), evaluateExpr as a pure function of the expression and the variables.',
        ref='DESIGN.md section 5 C02'),
    'C03': dict(
        text='Deductive proof of conservation along a fixed-amount send: trySendingExact queues exactly the requested amount or fails, '
             'receiveFrom distributes exactly the amount it is given, makeAllotment parts sum to the amount, Reconcile posts exactly the '
             'non-kept receivers and never writes a pre-existing big integer.',
        note='Statement-level composition (runSendStatement/RunProgram) is covered by the clauses tagged C03 on those functions when present.',
        ref='DESIGN.md section 5 C03'),
    'C04': dict(
        text='Deductive proof of the draw leaves against the closed formulas of the property (min(needed, max(0, balance+overdraft-already drawn)); '
             'everything for @world/unbounded; drain for send-all; rejection of unbounded/allotment sources in send-all) and of the in-order/capped/allotment '
             'tree walk (remaining need threaded left to right, totals, append-only sender queue).',
        note='The per-account greedy formula is proved at the leaves; the tree walk is proved for totals and order of the queue, not against a recursive Draw function.',
        ref='DESIGN.md section 5 C04'),
    'C05': dict(
        text='Deductive proof that receiveFrom/receiveFromKeptOrDest queue receivers summing exactly to the amount, in clause order, with caps applied to what is left, '
             'including the aliasing invariant of the remaining-amount accumulator.',
        note='Distribution is proved as totals + per-step remaining amount; the kept pseudo-receiver is removed by Reconcile (dest-not-kept, conservation).',
        ref='DESIGN.md section 5 C05'),
    'C06': dict(
        text='Deductive proof of makeAllotment for all amounts and all portion vectors: parts sum to the amount, each part is floor(q*M) or floor(q*M)+1, '
             'the extra units go to the leftmost parts, portions sum to one, InvalidAllotmentSum exactly when they do not.',
        note='Nonlinear steps are isolated in proved lemma steps inside the loops; floor(Num/Denom)=floor(q) is a trusted fact about big.Rat.',
        ref='DESIGN.md section 5 C06'),
}

CLAIMED.update({
    'C01': dict(
        text='Deductive proof of the per-account pull limit: the account leaves give min(needed, max(0, balance + granted overdraft - amount this statement already queued from '
             'the same account)) with that amount proved equal to the sum over the sender queue (alreadySent), @world / unbounded overdraft exempt; save never raises a balance; '
             'each posting moves the cached balances by exactly its amount (getPostings step assertion); the balance a statement starts from is the store\'s: every (account, asset) a statement needs is put into the batch (batchQuery), asked for and merged coherently (runBalancesQuery, findBalancesQueries; clauses shared with C09/C10).',
        note='The statement/script level composition (floor invariant over the whole run, prefix form) is an argument over these contracts in DESIGN.md, not machine-checked.',
        ref='DESIGN.md section 5 C01'),
    'C07': dict(
        text='Deductive proof of Reconcile as far as a contract expresses it: both stacks stay strictly positive (so a kept amount is consumed sender by sender, never negative or zero), '
             'senders and receivers stay balanced, postings equal the non-kept receivers, kept never becomes a posting, inputs are not written; pushSender / pushReceiver append at the end and keep the earlier entries (the queues Reconcile pairs are in draw / credit order).',
        note='The exact first-come-first-served pairing order (which sender is paired with which receiver) is NOT proved in general: it needs a positional invariant over two interleaved prefix sums. A BOUNDED stand-in (labelled so in the evidence, never counted as proved) checks it for 2 x 2, 3 x 2 and 2 x 3 senders x receivers with arbitrary names (kept included, so kept amounts spanning two or three sources are covered) and arbitrary amounts against the interval-overlap formula: the harnesses reconcilePairing2x2 / 3x2 / 2x3 (build tag verif) are verified with every loop of Reconcile unrolled up to 8 / 10 / 10 iterations, unwinding assertion included.',
        ref='DESIGN.md section 5 C07'),
    'C08': dict(
        text='Deductive proof of runSaveStatement against the closed formula of the property (whole-view postcondition: the saved pair changes as specified, every other pair is unchanged, '
             'no posting, negative amount rejected, queues untouched), of the up-front request of the saved pair, and of the carry into later statements: each posting of getPostings debits its source cell and credits its destination cell by its amount, a self-posting is neutral, no other account moves (loop step assertions).',
        note='That later statements cannot move the saved amount follows from C01\'s leaf contracts over the lowered balance (paper step).',
        ref='DESIGN.md section 5 C08'),
    'C09': dict(
        text='Deductive proof of the state transformer of a statement: getPostings applies each posting to exactly the two cells concerned and leaves other assets alone, runStatement resets the '
             'queues before use, metadata setters override key by key and keep all other keys, save leaves the queues alone; all balances a script needs are requested before its first statement runs, whatever the number of assets per account (preload clauses shared with C10).',
        note='The two-run equation itself is a corollary argued in DESIGN.md (fold over a concatenation), not machine-checked.',
        ref='DESIGN.md section 5 C09'),
    'C10': dict(
        text='Deductive proof, under the stated store contract (A5), that the pre-scan requests every balance that matters (recursive predicate over the source tree, all node kinds), that '
             '@world is never requested (precondition of the store call), that the query asks a superset of what is pending and unknown, that answers are merged without forgetting known '
             'cells and coherently with the store\'s sheet, and that balance()/overdraft() read a requested cell whose value, when the pair was not cached yet, is the store\'s (getBalance [asked-before-used]).',
        note='Assumed: the store answers from one fixed balance sheet and may omit zero entries / add extra ones (extern contract). The link between the pre-scan and the run-time reads (same expression, same variables) is a paper step.',
        ref='DESIGN.md section 5 C10'),
    'C11': dict(
        text='Deductive proof of the write frames: RunProgram and RunWithFeatureFlags modify nothing that existed before the call (variables map, AST, every map and big integer handed out by the store); '
             'the cache owns what it writes (cells and per-account maps are allocated by the run, never the store\'s); the feature flag is read only by overdraft().',
        note='Thread interleavings are not explored: re-entrancy is the separation argument over these frames. Determinism of map iteration is not machine-checked.',
        ref='DESIGN.md section 5 C11'),
    'C12': dict(
        text='Panic-freedom sweep of the interpreter (every nil dereference, index, type assertion, explicit panic, library precondition on every path of every function under contract, '
             'under well-formed ASTs and arbitrary variables / store answers), typed-error contracts, result-xor-error for RunProgram, empty result on error for RunWithFeatureFlags, store errors surface wrapped.',
        note='Well-formedness of the AST for error-free parses is assumption T3 about ANTLR.',
        ref='DESIGN.md section 5 C12'),
})

CLAIMED.update({
    'C13': dict(
        text='Deductive proof that the literal conversions read digits in base ten and scale by the right power of ten: ParsePercentageRatio / parsePercentageRatio '
             '(numerator = the digits before and after the point as one base-ten numeral, denominator = 10^(2+number of fractional digits), error exactly when the digits are not a numeral), '
             'parseRatio / unsafeParseBigInt (both parts base ten), parsePortionSource per alternative, RatioLiteral.ToRatio (exactly numerator over denominator, at any size); ParsePortionSpecific yields a value in [0,1]; '
             'parseVar keeps account, asset and string texts unchanged, reads a number as the base-ten numeral written and a monetary as the asset before the only blank and the base-ten amount after it (parseMonetary), at any size and sign; '
             'String() of the six value types is the text itself / big.Int.String / big.Rat.String; the JSON encoders may call only fmt.Sprintf and those two renderings (closed `calls` list).',
        note='The meaning of numerals (numval(s, 10)) and big.Int/big.Rat arithmetic are library contracts (trusted). The round trip value -> String()/MarshalJSON -> parseVar for numbers, monetaries and portions '
             'is NOT machine-checked as one theorem (it needs numval(decstr(v)) = v, a fact about the library, and the format string of Monetary.String): both halves are proved against the same library renderings; the variable reader of portions is proved only for range and error typing.',
        ref='DESIGN.md section 5 C13'),
    'C14': dict(
        text='Panic-freedom sweep of the hand-written parser layer for every parse tree the generated recogniser can hand over (nil children after error recovery, error-recovery base contexts, '
             'every alternative of every rule): every nil dereference, index, slice, type switch default, explicit panic and library precondition in parser.go / range.go is an obligation; '
             'SyntaxError appends exactly one located error; ShowOnSource and ParseErrorsToString never panic on ranges that lie on the source.',
        note='Assumption T3 (listed in the trusted base of every run): facts about the ANTLR runtime and the generated recogniser - first children of a rule are never nil, token text shapes follow the lexer rules, '
             'listener callbacks carry 1-based lines and 0-based columns. Termination of the recogniser, "valid scripts give zero errors" and "invalid ones give at least one" are properties of generated code and are not decided here.',
        ref='DESIGN.md section 5 C14'),
})

CLAIMED.update({
    'C15': dict(
        text='Deductive proof, function by function over the whole conversion layer (parse tree -> AST), that every node has the kind of the grammar alternative it was parsed from, carries exactly the range of its '
             'context (first character of the first token to just past the last token, counted in characters: ctxToRange / tokenToRange), and that every child sits at the grammar position the property names '
             '(cap vs. source of a capped source, address vs. bound of an overdraft, left vs. right of an infix expression, asset vs. amount of a monetary, each clause of in-order / allotment lists in list order, '
             'statement order of the program); Position.GtEq is the lexicographic order and Range.Contains is closed-interval containment.',
        note='What the tokens and contexts ARE (lexing, whitespace and comment skipping, precedence and associativity, which context the accessor of a label returns) is the generated recogniser: assumption T3, not proved. '
             'Children-within-parents and sibling order follow from the range equations plus T3 and are not separately machine-checked. Literal values: asset text, operator text, number value (Atoi) and portion values (C13) are covered; '
             'account/variable/string texts are sliced from the token text and proved only to be in bounds.',
        ref='DESIGN.md section 5 C15'),
})

CLAIMED.update({
    'C18': dict(
        text='Panic-freedom sweep of the whole analysis package (check.go, hover.go, goto_definition.go, document_symbols.go) for every tree of the editor shape: '
             'every child may be missing, lists may hold nil entries, declarations may lack a name or an origin. Every nil dereference, nil-interface call, index, type switch default and nil-map write on every path '
             'is an obligation; the checker state (all maps exist, registered declarations have a name and a type, resolutions are of the two known kinds) is an invariant of every function; the scope flags '
             'of capped sources are restored on exit; RatioLiteral.ToRatio, which the allotment checks call, is proved exact and panic-free for every non-zero denominator; the message of every diagnostic kind is declared deterministic (a range over a map below it is a failed obligation).',
        note='ASSUMED (listed in the trusted base of each run): Parse yields a tree of the editor shape - no interface field holds a nil pointer, and six children the analysis dereferences without a guard are present '
             '(call name, declaration type, expression of an account source/destination, address of an overdraft source) - a fact about ANTLR error recovery (T3), backed by a 6000-input differential probe during development, not proved. '
             'Termination, diagnostic ranges lying inside the document, and determinism (map iteration order of the unused-variable loop) are not decided by these contracts.',
        ref='DESIGN.md section 5 C18'),
})

CLAIMED.update({
    'C19': dict(
        text='Deductive proof of the language-server state machine as a data structure against an abstract view: every stored document carries the analysis of the text stored with it (invariant of every handler); '
             'updateDocument has a whole-view postcondition (the named document gets the new text and its analysis, every other document is unchanged); Handle: didOpen stores the text it carries, didChange stores the LAST content change, '
             'every other request changes no document; hover / definition / symbols modify nothing, answer nil for an unknown document, and definition answers with the URI that was asked; '
             'navigation, as far as stated: hoverOnExpression returns exactly the variable whose range holds the cursor (and nothing for other leaves), an account source and the first member of an in-order source give their variable under the cursor, '
             'the checker resolves every declared variable it visits (also the portion variable of a destination share and of a source share) and never forgets a resolution (checkSource and checkDestination keep earlier resolutions).',
        note='"the analysis of a text" is the relation analysed(result, text) defined by the (assumed, definitional) postcondition of analysis.CheckSource; determinism of the analysis is not proved. '
             'The content of hover texts and navigation through every nesting (all members of a block, destinations, function arguments) are NOT proved. JSON decoding of the request is an arbitrary value of the parameter type. '
             'Interleavings do not arise: the server handles one request at a time.',
        ref='DESIGN.md section 5 C19'),
    'C20': dict(
        text='Deductive proof of the exit behaviour of the two commands: every os.Exit in internal/cmd carries a non-zero status; `check` returns normally only when the number of error-severity diagnostics it obtained from GetErrorsCount on the analysed file is zero; '
             '`run` returns normally only when parsing produced no error and RunProgram returned no error (every failure path ends in os.Exit); in the printing loop of `check` the operands of the diagnostic line are the path, the START line and character of that diagnostic and its severity label (loop step assertion over the operands of fmt.Printf); the JSON encoders of values use only the library renderings their String() methods use (closed `calls` list).',
        note='Not proved: what is printed beyond the operands handed to fmt.Printf in `check` (formatting itself, message texts, JSON rendering - encoding/json and fmt are outside the model), the equivalence of the three input channels (the readers are trusted contracts that only frame which option fields they set), '
             'the exact value of the error count beyond zero / non-zero; that the in-place sort of the diagnostics keeps the same diagnostics (sort.Slice is modelled as an arbitrary rearrangement).',
        ref='DESIGN.md section 5 C20'),
})

CLAIMED.update({
    'C16': dict(
        text='Deductive proof of the per-function clauses that make the checker exact about variable names: a repeated declaration yields exactly one DuplicateVariable at the name token and keeps the first declaration; '
             'a first declaration yields no report and registers the variable as declared and unused; a use of a name that is not declared yields an UnboundVariable at the use, a use of a declared name is resolved to its declaration, '
             'yields no UnboundVariable and removes the name from the unused set; expression checks never touch the set of declarations; reports are only appended (earlier ones are kept); a type report arises only for two different types; '
             'every argument of a call, whatever the type of its parameter, is visited (its variable is marked used and resolved); the unused-variable reports sit at the name token of the first declaration; '
             'the send-all / capped-scope flags are written only where the frame allows (checkSentValue, checkExpression, checkDestination cannot touch them) and are restored by checkSource.',
        note='NOT decided: the "never cries wolf" half as a whole (that a script which is well typed by the language rules gets no error) - it needs a typing judgment as a recursive specification that the checker is proved against; '
             'the once-per-variable count over a whole script (the clauses are per call) and the unused-variable loop (map iteration) are argued from these clauses, not machine-checked. One genuine defect of this property was repaired (see known_findings.json).',
        ref='DESIGN.md section 5 C16'),
    'C17': dict(
        text='Deductive proof of the clauses on both sides that the property connects, each for all inputs: (checker) an undeclared variable in any expression position is reported, also as the account of a source that follows an unbounded one; '
             'a declared type is accepted exactly when it is one of the six type names (isTypeAllowed, proved over the content of AllowedTypes read from the package initialiser); (interpreter) parseVar maps the six declared types to values of exactly those kinds and rejects every other type name with InvalidTypeErr, send-all rejects unbounded and allotment sources with the typed errors the checker announces, '
             'run-time failures are of the typed kinds only (clauses shared with C12).',
        note='NOT decided: the implication itself (clean check => no static-class failure at run time) for whole programs. It is a relational property of two recursive traversals; it would need one typing judgment proved sound against evaluateExpr and complete against checkExpression. '
             'The clauses above are the per-function facts such a proof would use; the composition is an argument in DESIGN.md.',
        ref='DESIGN.md section 5 C17'),
})

NOT_APPLICABLE = {}

PENDING = []


def main():
    hooks = subprocess.run("git -C /repo log --format=%H --grep='^verif:' ", shell=True, capture_output=True, text=True).stdout.split()
    checks = []
    for pid in sorted(CLAIMED):
        c = CLAIMED[pid]
        checks.append({
            'property_id': pid,
            'quick_cmd': '/verif/check.sh %s quick' % pid,
            'thorough_cmd': '/verif/check.sh %s thorough' % pid,
            'evidence_file': '/verif/evidence/%s.json' % pid,
            'replay_cmd_template': 'cat {path}',
            'engine': 'gocv',
            'level_claimed': {'category': 'proof', 'text': c['text'], 'design_ref': c['ref']},
            'level_note': c['note'],
            'technique': 'contract-based deductive verification: weakest-precondition style VCs generated from go/ssa of /repo, '
                         'contracts as //@ comments in build-tag-guarded files, discharged by z3',
        })
    na = [{'property_id': p, 'reason': r} for p, r in sorted(NOT_APPLICABLE.items())]
    for p in PENDING:
        if p not in CLAIMED and p not in NOT_APPLICABLE:
            na.append({'property_id': p, 'reason': 'no contract discharged for this property yet (work in progress; see DESIGN.md section 5 for the planned contracts)'})
    m = {
        'version': 1,
        'setup_cmd': 'cd /verif/engine/ssaexport && GOFLAGS=-mod=mod GOPROXY=off GOSUMDB=off GOTOOLCHAIN=local go build -o /verif/bin/ssaexport .',
        'hooks': {
            'guard': 'verif',
            'enable': '-tags verif is passed to go/packages by the SSA exporter; the guarded files zz_contracts_verif.go contain only comments (contracts) and add no code; internal/interpreter/zz_bounded_verif.go adds three harness functions (reconcilePairing2x2, 3x2, 2x3) that exist only under the tag and is used by the bounded check of C07',
            'baseline_off_cmd': '/verif/tools/run_repo_tests.sh /repo',
            'source_commits': hooks,
            'add_only': True,
        },
        'engines': [{
            'name': 'gocv',
            'path': '/verif/engine',
            'serves_properties': sorted(CLAIMED),
            'kind_free_text': 'self-written deductive verifier for Go: engine/ssaexport (go/packages + go/ssa -> JSON) and engine/gocv '
                              '(Python: symbolic execution of the SSA into verification conditions against //@ contracts, z3 5.1 through its API)',
        }],
        'checks': checks,
        'not_applicable': na,
        'notes': 'Every check rebuilds the SSA dump from /repo\'s working tree (cached by content hash under /verif/.cache).',
    }
    with open('/verif/MANIFEST.json', 'w') as f:
        json.dump(m, f, indent=1)
    print('wrote MANIFEST.json: %d checks, %d not applicable' % (len(checks), len(na)))


if __name__ == '__main__':
    main()
