#!/usr/bin/env python3
"""Regenerates /verif/MANIFEST.json from the table below (one entry per property)."""
import json
import subprocess

CLAIMED = {
    'C02': dict(
        text='Deductive proof, for all inputs, of the contracts that carry positivity and naming of postings: zero amounts are '
             'never queued (pushSender/pushReceiver), every queued sender/receiver is strictly positive with an owned big integer '
             '(leaf draws, trySendingUpTo, sendAll, receiveFrom, makeAllotment), Reconcile keeps both stacks positive and every '
             'posting positive, of the requested asset and never addressed to the kept marker.',
        note='Contracts are proved function by function on the SSA of the working tree; callers use callee contracts only. '
             'Trusted: math/big library contracts, allocation model (A2/A3), evaluateExpr as a pure function of the expression and the variables.',
        ref='DESIGN.md section 5 C02'),
    'C03': dict(
        text='Deductive proof of conservation along a fixed-amount send: trySendingExact queues exactly the requested amount or fails, '
             'receiveFrom distributes exactly the amount it is given, makeAllotment parts sum to the amount, Reconcile posts exactly the '
             'non-kept receivers and never writes a pre-existing big integer.',
        note='Statement-level composition (runSendStatement/RunProgram) is covered by the clauses tagged C03 on those functions when present.',
        ref='DESIGN.md section 5 C03'),
    'C04': dict(
        text='Deductive proof of the draw leaves against the closed formulas of the property (min(needed, max(0, balance+overdraft-already drawn)); '
             'everything for @world/unbounded; drain for send-all; rejection of unbounded/allotment sources in send-all) and of the in-order/capped/allotment '
             'tree walk (remaining need threaded left to right, totals, append-only sender queue).',
        note='The per-account greedy formula is proved at the leaves; the tree walk is proved for totals and order of the queue, not against a recursive Draw function.',
        ref='DESIGN.md section 5 C04'),
    'C05': dict(
        text='Deductive proof that receiveFrom/receiveFromKeptOrDest queue receivers summing exactly to the amount, in clause order, with caps applied to what is left, '
             'including the aliasing invariant of the remaining-amount accumulator.',
        note='Distribution is proved as totals + per-step remaining amount; the kept pseudo-receiver is removed by Reconcile (dest-not-kept, conservation).',
        ref='DESIGN.md section 5 C05'),
    'C06': dict(
        text='Deductive proof of makeAllotment for all amounts and all portion vectors: parts sum to the amount, each part is floor(q*M) or floor(q*M)+1, '
             'the extra units go to the leftmost parts, portions sum to one, InvalidAllotmentSum exactly when they do not.',
        note='Nonlinear steps are isolated in proved lemma steps inside the loops; floor(Num/Denom)=floor(q) is a trusted fact about big.Rat.',
        ref='DESIGN.md section 5 C06'),
}

NOT_APPLICABLE = {}

PENDING = ['C01', 'C07', 'C08', 'C09', 'C10', 'C11', 'C12', 'C13', 'C14', 'C15', 'C16', 'C17', 'C18', 'C19', 'C20']


def main():
    hooks = subprocess.run("git -C /repo log --format=%H --grep='^verif:' ", shell=True, capture_output=True, text=True).stdout.split()
    checks = []
    for pid in sorted(CLAIMED):
        c = CLAIMED[pid]
        checks.append({
            'property_id': pid,
            'quick_cmd': '/verif/check.sh %s quick' % pid,
            'thorough_cmd': '/verif/check.sh %s thorough' % pid,
            'evidence_file': '/verif/evidence/%s.json' % pid,
            'replay_cmd_template': 'cat {path}',
            'engine': 'gocv',
            'level_claimed': {'category': 'proof', 'text': c['text'], 'design_ref': c['ref']},
            'level_note': c['note'],
            'technique': 'contract-based deductive verification: weakest-precondition style VCs generated from go/ssa of /repo, '
                         'contracts as //@ comments in build-tag-guarded files, discharged by z3',
        })
    na = [{'property_id': p, 'reason': r} for p, r in sorted(NOT_APPLICABLE.items())]
    for p in PENDING:
        if p not in CLAIMED and p not in NOT_APPLICABLE:
            na.append({'property_id': p, 'reason': 'no contract discharged for this property yet (work in progress; see DESIGN.md section 5 for the planned contracts)'})
    m = {
        'version': 1,
        'setup_cmd': 'cd /verif/engine/ssaexport && GOFLAGS=-mod=mod GOPROXY=off GOSUMDB=off GOTOOLCHAIN=local go build -o /verif/bin/ssaexport .',
        'hooks': {
            'guard': 'verif',
            'enable': '-tags verif is passed to go/packages by the SSA exporter; the guarded files (zz_contracts_verif.go) contain only comments (contracts) and add no code',
            'baseline_off_cmd': '/verif/tools/run_repo_tests.sh /repo',
            'source_commits': hooks,
            'add_only': True,
        },
        'engines': [{
            'name': 'gocv',
            'path': '/verif/engine',
            'serves_properties': sorted(CLAIMED),
            'kind_free_text': 'self-written deductive verifier for Go: engine/ssaexport (go/packages + go/ssa -> JSON) and engine/gocv '
                              '(Python: symbolic execution of the SSA into verification conditions against //@ contracts, z3 5.1 through its API)',
        }],
        'checks': checks,
        'not_applicable': na,
        'notes': 'Every check rebuilds the SSA dump from /repo\'s working tree (cached by content hash under /verif/.cache).',
    }
    with open('/verif/MANIFEST.json', 'w') as f:
        json.dump(m, f, indent=1)
    print('wrote MANIFEST.json: %d checks, %d not applicable' % (len(checks), len(na)))


if __name__ == '__main__':
    main()
