#!/usr/bin/env python3
"""Like run_seeded.py, but each seeded change is applied to its own scratch worktree of /repo's HEAD (removed
afterwards) and the quick check of the property is run against that worktree (VERIF_REPO), several at a time.
The checks registered in MANIFEST.json always run against /repo itself; this is only the must-fail corpus.
usage: run_seeded_parallel.py [-j N] [id ...]"""
import json
import os
import subprocess
import sys
import time
from concurrent.futures import ThreadPoolExecutor


def sh(cmd, timeout=2400, env=None):
    p = subprocess.run(cmd, shell=True, capture_output=True, text=True, timeout=timeout, env=env)
    return p.returncode, p.stdout + p.stderr


def one(mid):
    meta = json.load(open('/verif/seeded/%s/meta.json' % mid))
    props = [meta['breaks_property']] + meta.get('also_check', [])
    wt = '/tmp/sw_%s' % mid
    sh('git -C /repo worktree remove --force %s' % wt)
    rc, out = sh('git -C /repo worktree add --detach %s HEAD' % wt)
    if rc:
        return mid, {'error': 'worktree: ' + out[-200:]}
    entry = {}
    try:
        rc, out = sh('git -C %s apply /verif/seeded/%s/patch.diff' % (wt, mid))
        if rc:
            return mid, {'error': 'patch does not apply: ' + out[-300:]}
        for prop in props:
            t0 = time.time()
            env = dict(os.environ, VERIF_REPO=wt, VERIF_JOBS='6')
            rc, out = sh('/verif/check.sh %s quick' % prop, env=env)
            viol = [l for l in out.splitlines() if l.startswith('VIOLATION')]
            entry[prop] = {'exit': rc, 'caught': rc == 1 and bool(viol), 'wall_s': round(time.time() - t0, 1),
                           'obligations': [l.split('obligation=')[1].split()[0] for l in viol if 'obligation=' in l][:8],
                           'no_input': all('no-failing-input-found' in l for l in viol) if viol else None,
                           'how': 'scratch worktree of HEAD + VERIF_REPO'}
            print(mid, prop, 'exit', rc, 'caught' if entry[prop]['caught'] else 'MISSED', entry[prop]['obligations'][:3], flush=True)
    finally:
        sh('git -C /repo worktree remove --force %s' % wt)
    return mid, entry


def main():
    args = sys.argv[1:]
    j = 3
    if args and args[0] == '-j':
        j = int(args[1])
        args = args[2:]
    ids = args or sorted(d for d in os.listdir('/verif/seeded') if os.path.isdir('/verif/seeded/' + d))
    path = '/verif/seeded/RESULTS.json'
    results = json.load(open(path)) if os.path.exists(path) else {}
    with ThreadPoolExecutor(j) as ex:
        for mid, entry in ex.map(one, ids):
            results[mid] = entry
            with open(path, 'w') as f:
                json.dump(results, f, indent=1, sort_keys=True)
    return 0


if __name__ == '__main__':
    sys.exit(main())
