#!/bin/bash
# Runs the repository's pinned test suite (guard off) and prints pass/fail counts.
# usage: run_repo_tests.sh [repo dir]
export GOFLAGS=-mod=mod GOPROXY=off GOSUMDB=off GOTOOLCHAIN=local
dir=${1:-/repo}
cd "$dir" || exit 2
out=$(go test -json -vet=off -count=1 -timeout 25m ./... 2>&1)
pass=$(echo "$out" | grep -c '"Action":"pass","Package":"[^"]*","Test"')
fail=$(echo "$out" | grep -c '"Action":"fail","Package":"[^"]*","Test"')
echo "pass=$pass fail=$fail"
if [ "$fail" != "0" ]; then echo "$out" | grep '"Action":"fail"' | head -20; exit 1; fi
echo "$out" | grep -q 'build failed\|\[build failed\]\|cannot\|setup failed' && { echo "$out" | grep -v '"Action":"\(run\|pass\|output\|start\|pause\|cont\|skip\)"' | head -20; exit 1; }
exit 0
