#!/bin/bash
# usage: check.sh <property> [quick|thorough]   (cwd-independent)
cd /verif/engine || exit 2
export GOFLAGS=-mod=mod GOPROXY=off GOSUMDB=off GOTOOLCHAIN=local
exec python3-vt -m gocv.check --property "$1" --tier "${2:-${VERIF_TIER:-quick}}"
