; benchmark generated from python API
(set-info :status unknown)
(declare-sort Str 0)
(declare-fun slen (Str) Int)
(declare-fun str_0 () Str)
(declare-fun srunes (Str) Int)
(declare-fun |H\|interpreter.programState\|Senders#arr\|Int@0| () (Array Int Int))
(declare-fun alloc@0 () Int)
(declare-fun |A\|interpreter.Sender\|Monetary\|Int@0| () (Array Int (Array Int Int)))
(declare-fun |H\|interpreter.Sender\|Monetary\|Int@0| () (Array Int Int))
(declare-fun in_st () Int)
(declare-fun in_monetary () Int)
(declare-fun |H\|bigint\|\|Int@0| () (Array Int Int))
(declare-fun |H\|interpreter.programState\|Senders#len\|Int@0| () (Array Int Int))
(declare-fun alloc_l1!4 () Int)
(declare-fun l1_rangeindex!5 () Int)
(declare-fun in_name () Str)
(declare-fun |A\|interpreter.Sender\|Name\|Str@0| () (Array Int (Array Int Str)))
(declare-fun j!b () Int)
(assert
 (= (slen str_0) 0))
(assert
 (= (srunes str_0) 0))
(assert
 (forall ((r!wt Int) )(! (let ((?x61 (select |H\|interpreter.programState\|Senders#arr\|Int@0| r!wt)))
 (let (($x68 (>= ?x61 0)))
 (and $x68 (< ?x61 alloc@0)))) :pattern ( (select |H\|interpreter.programState\|Senders#arr\|Int@0| r!wt) ) :qid q_r_wt_H_interpreter.programState_Senders_arr_Int_0))
 )
(assert
 (forall ((r!wt Int) (i!wt Int) )(! (let ((?x107 (select (select |A\|interpreter.Sender\|Monetary\|Int@0| r!wt) i!wt)))
 (let (($x110 (>= ?x107 0)))
 (and $x110 (< ?x107 alloc@0)))) :pattern ( (select (select |A\|interpreter.Sender\|Monetary\|Int@0| r!wt) i!wt) ) :qid q_r_wt_A_interpreter.Sender_Monetary_Int_0))
 )
(assert
 (forall ((r!wt Int) )(! (let ((?x241 (select |H\|interpreter.Sender\|Monetary\|Int@0| r!wt)))
 (let (($x238 (>= ?x241 0)))
 (and $x238 (< ?x241 alloc@0)))) :pattern ( (select |H\|interpreter.Sender\|Monetary\|Int@0| r!wt) ) :qid q_r_wt_H_interpreter.Sender_Monetary_Int_0))
 )
(assert
 (>= alloc@0 1))
(assert
 (let (($x12 (>= in_st 0)))
 (and $x12 (< in_st alloc@0))))
(assert
 (let (($x15 (>= in_monetary 0)))
 (and $x15 (< in_monetary alloc@0))))
(assert
 (let (($x23 (not (= in_monetary 0))))
 (let (($x21 (not (= in_st 0))))
 (and $x21 $x23))))
(assert
 (not (= in_monetary 0)))
(assert
 (not (= alloc@0 0)))
(assert
 (let ((?x27 (store |H\|bigint\|\|Int@0| alloc@0 0)))
 (let ((?x28 (select ?x27 in_monetary)))
 (let (($x40 (= ?x28 0)))
 (let (($x43 (and $x40 (<= 0 ?x28))))
 (not $x43))))))
(assert
 (not (= in_st 0)))
(assert
 (not (= in_st 0)))
(assert
 (let ((?x65 (select |H\|interpreter.programState\|Senders#len\|Int@0| in_st)))
 (let (($x66 (= ?x65 0)))
 (let ((?x71 (select |H\|interpreter.programState\|Senders#arr\|Int@0| in_st)))
 (let (($x63 (= ?x71 0)))
 (=> $x63 $x66))))))
(assert
 (let ((?x25 (+ alloc@0 1)))
 (let ((?x71 (select |H\|interpreter.programState\|Senders#arr\|Int@0| in_st)))
 (let (($x78 (< ?x71 ?x25)))
 (let (($x77 (>= ?x71 0)))
 (and $x77 $x78))))))
(assert
 (>= 0 0))
(assert
 (let ((?x65 (select |H\|interpreter.programState\|Senders#len\|Int@0| in_st)))
 (>= ?x65 0)))
(assert
 (let ((?x25 (+ alloc@0 1)))
 (>= alloc_l1!4 ?x25)))
(assert
 (let (($x155 (<= l1_rangeindex!5 9223372036854775807)))
 (let (($x153 (>= l1_rangeindex!5 (- 9223372036854775808))))
 (and $x153 $x155))))
(assert
 (>= l1_rangeindex!5 (- 1)))
(assert
 (let ((?x65 (select |H\|interpreter.programState\|Senders#len\|Int@0| in_st)))
 (let ((?x128 (+ l1_rangeindex!5 1)))
 (<= ?x128 ?x65))))
(assert
 (let ((?x157 (+ 1 l1_rangeindex!5)))
 (let ((?x65 (select |H\|interpreter.programState\|Senders#len\|Int@0| in_st)))
 (not (<= ?x65 ?x157)))))
(assert
 (not (= in_st 0)))
(assert
 (not (= in_st 0)))
(assert
 (let ((?x65 (select |H\|interpreter.programState\|Senders#len\|Int@0| in_st)))
 (let (($x66 (= ?x65 0)))
 (let ((?x71 (select |H\|interpreter.programState\|Senders#arr\|Int@0| in_st)))
 (let (($x63 (= ?x71 0)))
 (=> $x63 $x66))))))
(assert
 (let ((?x71 (select |H\|interpreter.programState\|Senders#arr\|Int@0| in_st)))
 (let (($x77 (>= ?x71 0)))
 (and $x77 (< ?x71 alloc_l1!4)))))
(assert
 (>= 0 0))
(assert
 (let ((?x65 (select |H\|interpreter.programState\|Senders#len\|Int@0| in_st)))
 (>= ?x65 0)))
(assert
 (let ((?x65 (select |H\|interpreter.programState\|Senders#len\|Int@0| in_st)))
 (let ((?x128 (+ l1_rangeindex!5 1)))
 (let (($x150 (< ?x128 ?x65)))
 (and (>= ?x128 0) $x150)))))
(assert
 (let ((?x157 (+ 1 l1_rangeindex!5)))
 (let ((?x71 (select |H\|interpreter.programState\|Senders#arr\|Int@0| in_st)))
 (let ((?x94 (select |A\|interpreter.Sender\|Name\|Str@0| ?x71)))
 (= (select ?x94 ?x157) in_name)))))
(assert
 (not (= in_st 0)))
(assert
 (not (= in_st 0)))
(assert
 (let ((?x65 (select |H\|interpreter.programState\|Senders#len\|Int@0| in_st)))
 (let (($x66 (= ?x65 0)))
 (let ((?x71 (select |H\|interpreter.programState\|Senders#arr\|Int@0| in_st)))
 (let (($x63 (= ?x71 0)))
 (=> $x63 $x66))))))
(assert
 (let ((?x71 (select |H\|interpreter.programState\|Senders#arr\|Int@0| in_st)))
 (let (($x77 (>= ?x71 0)))
 (and $x77 (< ?x71 alloc_l1!4)))))
(assert
 (>= 0 0))
(assert
 (let ((?x65 (select |H\|interpreter.programState\|Senders#len\|Int@0| in_st)))
 (>= ?x65 0)))
(assert
 (let ((?x65 (select |H\|interpreter.programState\|Senders#len\|Int@0| in_st)))
 (let ((?x128 (+ l1_rangeindex!5 1)))
 (let (($x150 (< ?x128 ?x65)))
 (and (>= ?x128 0) $x150)))))
(assert
 (not (= in_st 0)))
(assert
 (not (= in_st 0)))
(assert
 (let ((?x65 (select |H\|interpreter.programState\|Senders#len\|Int@0| in_st)))
 (let (($x66 (= ?x65 0)))
 (let ((?x71 (select |H\|interpreter.programState\|Senders#arr\|Int@0| in_st)))
 (let (($x63 (= ?x71 0)))
 (=> $x63 $x66))))))
(assert
 (let ((?x206 (+ alloc_l1!4 1)))
 (let ((?x71 (select |H\|interpreter.programState\|Senders#arr\|Int@0| in_st)))
 (let (($x207 (< ?x71 ?x206)))
 (let (($x77 (>= ?x71 0)))
 (and $x77 $x207))))))
(assert
 (>= 0 0))
(assert
 (let ((?x65 (select |H\|interpreter.programState\|Senders#len\|Int@0| in_st)))
 (>= ?x65 0)))
(assert
 (let ((?x65 (select |H\|interpreter.programState\|Senders#len\|Int@0| in_st)))
 (let ((?x128 (+ l1_rangeindex!5 1)))
 (let (($x150 (< ?x128 ?x65)))
 (and (>= ?x128 0) $x150)))))
(assert
 (let ((?x206 (+ alloc_l1!4 1)))
 (let ((?x128 (+ l1_rangeindex!5 1)))
 (let ((?x71 (select |H\|interpreter.programState\|Senders#arr\|Int@0| in_st)))
 (let ((?x97 (select |A\|interpreter.Sender\|Monetary\|Int@0| ?x71)))
 (let ((?x202 (select ?x97 ?x128)))
 (and (>= ?x202 0) (< ?x202 ?x206))))))))
(assert
 (let ((?x157 (+ 1 l1_rangeindex!5)))
 (let ((?x71 (select |H\|interpreter.programState\|Senders#arr\|Int@0| in_st)))
 (let ((?x97 (select |A\|interpreter.Sender\|Monetary\|Int@0| ?x71)))
 (let ((?x194 (select ?x97 ?x157)))
 (not (= ?x194 0)))))))
(assert
 (not (= in_monetary 0)))
(assert
 (not (= alloc_l1!4 0)))
(assert
 (let ((?x65 (select |H\|interpreter.programState\|Senders#len\|Int@0| in_st)))
 (let (($x66 (= ?x65 0)))
 (let ((?x71 (select |H\|interpreter.programState\|Senders#arr\|Int@0| in_st)))
 (let (($x63 (= ?x71 0)))
 (=> $x63 $x66))))))
(assert
 (let ((?x206 (+ alloc_l1!4 1)))
 (let ((?x71 (select |H\|interpreter.programState\|Senders#arr\|Int@0| in_st)))
 (let (($x207 (< ?x71 ?x206)))
 (let (($x77 (>= ?x71 0)))
 (and $x77 $x207))))))
(assert
 (>= 0 0))
(assert
 (let ((?x65 (select |H\|interpreter.programState\|Senders#len\|Int@0| in_st)))
 (>= ?x65 0)))
(assert
 (let ((?x65 (select |H\|interpreter.programState\|Senders#len\|Int@0| in_st)))
 (let (($x66 (= ?x65 0)))
 (let ((?x71 (select |H\|interpreter.programState\|Senders#arr\|Int@0| in_st)))
 (let (($x63 (= ?x71 0)))
 (=> $x63 $x66))))))
(assert
 (let ((?x206 (+ alloc_l1!4 1)))
 (let ((?x71 (select |H\|interpreter.programState\|Senders#arr\|Int@0| in_st)))
 (let (($x207 (< ?x71 ?x206)))
 (let (($x77 (>= ?x71 0)))
 (and $x77 $x207))))))
(assert
 (>= 0 0))
(assert
 (let ((?x65 (select |H\|interpreter.programState\|Senders#len\|Int@0| in_st)))
 (>= ?x65 0)))
(assert
 (let ((?x65 (select |H\|interpreter.programState\|Senders#len\|Int@0| in_st)))
 (let (($x66 (= ?x65 0)))
 (let ((?x71 (select |H\|interpreter.programState\|Senders#arr\|Int@0| in_st)))
 (let (($x63 (= ?x71 0)))
 (=> $x63 $x66))))))
(assert
 (let ((?x206 (+ alloc_l1!4 1)))
 (let ((?x71 (select |H\|interpreter.programState\|Senders#arr\|Int@0| in_st)))
 (let (($x207 (< ?x71 ?x206)))
 (let (($x77 (>= ?x71 0)))
 (and $x77 $x207))))))
(assert
 (>= 0 0))
(assert
 (let ((?x65 (select |H\|interpreter.programState\|Senders#len\|Int@0| in_st)))
 (>= ?x65 0)))
(assert
 (let ((?x206 (+ alloc_l1!4 1)))
 (let ((?x65 (select |H\|interpreter.programState\|Senders#len\|Int@0| in_st)))
 (let ((?x71 (select |H\|interpreter.programState\|Senders#arr\|Int@0| in_st)))
 (let ((?x128 (+ l1_rangeindex!5 1)))
 (let ((?x97 (select |A\|interpreter.Sender\|Monetary\|Int@0| ?x71)))
 (let ((?x171 (store |A\|interpreter.Sender\|Monetary\|Int@0| ?x71 (store ?x97 ?x128 alloc_l1!4))))
 (let ((?x179 (select ?x171 ?x71)))
 (let ((?x164 (select ?x179 ?x65)))
 (and (>= ?x164 0) (< ?x164 ?x206)))))))))))
(assert
 (let ((?x65 (select |H\|interpreter.programState\|Senders#len\|Int@0| in_st)))
 (let (($x66 (= ?x65 0)))
 (let ((?x71 (select |H\|interpreter.programState\|Senders#arr\|Int@0| in_st)))
 (let (($x63 (= ?x71 0)))
 (=> $x63 $x66))))))
(assert
 (let ((?x206 (+ alloc_l1!4 1)))
 (let ((?x71 (select |H\|interpreter.programState\|Senders#arr\|Int@0| in_st)))
 (let (($x207 (< ?x71 ?x206)))
 (let (($x77 (>= ?x71 0)))
 (and $x77 $x207))))))
(assert
 (>= 0 0))
(assert
 (let ((?x65 (select |H\|interpreter.programState\|Senders#len\|Int@0| in_st)))
 (>= ?x65 0)))
(assert
 (let ((?x206 (+ alloc_l1!4 1)))
 (let ((?x65 (select |H\|interpreter.programState\|Senders#len\|Int@0| in_st)))
 (let ((?x71 (select |H\|interpreter.programState\|Senders#arr\|Int@0| in_st)))
 (let ((?x128 (+ l1_rangeindex!5 1)))
 (let ((?x97 (select |A\|interpreter.Sender\|Monetary\|Int@0| ?x71)))
 (let ((?x171 (store |A\|interpreter.Sender\|Monetary\|Int@0| ?x71 (store ?x97 ?x128 alloc_l1!4))))
 (let ((?x179 (select ?x171 ?x71)))
 (let ((?x164 (select ?x179 ?x65)))
 (and (>= ?x164 0) (< ?x164 ?x206)))))))))))
(assert
 (let ((?x65 (select |H\|interpreter.programState\|Senders#len\|Int@0| in_st)))
 (let (($x66 (= ?x65 0)))
 (let ((?x71 (select |H\|interpreter.programState\|Senders#arr\|Int@0| in_st)))
 (let (($x63 (= ?x71 0)))
 (=> $x63 $x66))))))
(assert
 (let ((?x206 (+ alloc_l1!4 1)))
 (let ((?x71 (select |H\|interpreter.programState\|Senders#arr\|Int@0| in_st)))
 (let (($x207 (< ?x71 ?x206)))
 (let (($x77 (>= ?x71 0)))
 (and $x77 $x207))))))
(assert
 (>= 0 0))
(assert
 (let ((?x65 (select |H\|interpreter.programState\|Senders#len\|Int@0| in_st)))
 (>= ?x65 0)))
(assert
 (let ((?x206 (+ alloc_l1!4 1)))
 (let ((?x71 (select |H\|interpreter.programState\|Senders#arr\|Int@0| in_st)))
 (let ((?x128 (+ l1_rangeindex!5 1)))
 (let ((?x97 (select |A\|interpreter.Sender\|Monetary\|Int@0| ?x71)))
 (let ((?x171 (store |A\|interpreter.Sender\|Monetary\|Int@0| ?x71 (store ?x97 ?x128 alloc_l1!4))))
 (let ((?x179 (select ?x171 ?x71)))
 (let ((?x208 (select ?x179 j!b)))
 (and (>= ?x208 0) (< ?x208 ?x206))))))))))
(assert
 (let (($x223 (forall ((j!b Int) )(! (let ((?x71 (select |H\|interpreter.programState\|Senders#arr\|Int@0| in_st)))
(let ((?x97 (select |A\|interpreter.Sender\|Monetary\|Int@0| ?x71)))
(let ((?x129 (select ?x97 j!b)))
(let ((?x171 (store |A\|interpreter.Sender\|Monetary\|Int@0| ?x71 (store ?x97 (+ l1_rangeindex!5 1) alloc_l1!4))))
(let ((?x179 (select ?x171 ?x71)))
(let ((?x94 (select |A\|interpreter.Sender\|Name\|Str@0| ?x71)))
(let ((?x131 (select ?x94 j!b)))
(let (($x132 (= ?x131 ?x131)))
(let (($x136 (and (<= 0 j!b) (< j!b (select |H\|interpreter.programState\|Senders#len\|Int@0| in_st)))))
(=> $x136 (and $x132 (= (select ?x179 j!b) ?x129)))))))))))) :qid q_j_b_nopat))
))
(let ((?x27 (store |H\|bigint\|\|Int@0| alloc@0 0)))
(let ((?x205 (store ?x27 alloc_l1!4 0)))
(let ((?x173 (select ?x205 in_monetary)))
(let ((?x128 (+ l1_rangeindex!5 1)))
(let ((?x71 (select |H\|interpreter.programState\|Senders#arr\|Int@0| in_st)))
(let ((?x97 (select |A\|interpreter.Sender\|Monetary\|Int@0| ?x71)))
(let ((?x202 (select ?x97 ?x128)))
(let ((?x167 (store ?x205 alloc_l1!4 (+ (select ?x205 ?x202) ?x173))))
(let (($x163 (= 0 (select ?x167 in_monetary))))
(let (($x178 (not $x163)))
(let (($x215 (=> $x178 $x223)))
(not $x215))))))))))))))
(check-sat)
