; benchmark generated from python API
(set-info :status unknown)
(declare-sort Str 0)
(declare-fun slen (Str) Int)
(declare-fun str_0 () Str)
(declare-fun srunes (Str) Int)
(declare-fun alloc@0 () Int)
(declare-fun in_a () Int)
(declare-fun in_b () Int)
(declare-fun bitlen (Int) Int)
(declare-fun |H\|bigint\|\|Int@0| () (Array Int Int))
(declare-fun x_Uint64!3 () Int)
(declare-fun x_Uint64!4 () Int)
(assert
 (= (slen str_0) 0))
(assert
 (= (srunes str_0) 0))
(assert
 (>= alloc@0 1))
(assert
 (let (($x695 (>= in_a 0)))
 (and $x695 (< in_a alloc@0))))
(assert
 (let (($x804 (>= in_b 0)))
 (and $x804 (< in_b alloc@0))))
(assert
 (let (($x703 (not (= in_b 0))))
 (let (($x996 (not (= in_a 0))))
 (and $x996 $x703))))
(assert
 (not (= in_a 0)))
(assert
 (let ((?x296 (store |H\|bigint\|\|Int@0| alloc@0 0)))
 (let ((?x1326 (select ?x296 in_a)))
 (let ((?x917 (bitlen ?x1326)))
 (>= ?x917 0)))))
(assert
 (let (($x1104 (and (< (select (store |H\|bigint\|\|Int@0| alloc@0 0) in_a) 18446744073709551616) (> (select (store |H\|bigint\|\|Int@0| alloc@0 0) in_a) (- 18446744073709551616)))))
 (let ((?x296 (store |H\|bigint\|\|Int@0| alloc@0 0)))
 (let ((?x1326 (select ?x296 in_a)))
 (let ((?x917 (bitlen ?x1326)))
 (let (($x1216 (<= ?x917 64)))
 (= $x1216 $x1104)))))))
(assert
 (let ((?x296 (store |H\|bigint\|\|Int@0| alloc@0 0)))
 (let ((?x1326 (select ?x296 in_a)))
 (let ((?x917 (bitlen ?x1326)))
 (= (= ?x917 0) (= ?x1326 0))))))
(assert
 (let ((?x296 (store |H\|bigint\|\|Int@0| alloc@0 0)))
 (let ((?x1326 (select ?x296 in_a)))
 (let ((?x917 (bitlen ?x1326)))
 (>= 64 ?x917)))))
(assert
 (not (= in_b 0)))
(assert
 (let ((?x296 (store |H\|bigint\|\|Int@0| alloc@0 0)))
 (let ((?x601 (select ?x296 in_b)))
 (let ((?x1333 (bitlen ?x601)))
 (>= ?x1333 0)))))
(assert
 (let (($x1162 (and (< (select (store |H\|bigint\|\|Int@0| alloc@0 0) in_b) 18446744073709551616) (> (select (store |H\|bigint\|\|Int@0| alloc@0 0) in_b) (- 18446744073709551616)))))
 (let ((?x296 (store |H\|bigint\|\|Int@0| alloc@0 0)))
 (let ((?x601 (select ?x296 in_b)))
 (let ((?x1333 (bitlen ?x601)))
 (let (($x649 (<= ?x1333 64)))
 (= $x649 $x1162)))))))
(assert
 (let ((?x296 (store |H\|bigint\|\|Int@0| alloc@0 0)))
 (let ((?x601 (select ?x296 in_b)))
 (let ((?x1333 (bitlen ?x601)))
 (= (= ?x1333 0) (= ?x601 0))))))
(assert
 (let ((?x296 (store |H\|bigint\|\|Int@0| alloc@0 0)))
 (let ((?x601 (select ?x296 in_b)))
 (let ((?x1333 (bitlen ?x601)))
 (>= 64 ?x1333)))))
(assert
 (let (($x1384 (<= x_Uint64!3 18446744073709551615)))
 (let (($x1105 (>= x_Uint64!3 0)))
 (and $x1105 $x1384))))
(assert
 (let (($x1288 (<= x_Uint64!4 18446744073709551615)))
 (let (($x1478 (>= x_Uint64!4 0)))
 (and $x1478 $x1288))))
(assert
 (not (<= x_Uint64!4 x_Uint64!3)))
(assert
 (not (= in_a 0)))
(assert
 (not (= alloc@0 0)))
(assert
 (let ((?x296 (store |H\|bigint\|\|Int@0| alloc@0 0)))
(let ((?x1326 (select ?x296 in_a)))
(let ((?x730 (store ?x296 alloc@0 ?x1326)))
(let ((?x1317 (select ?x730 in_b)))
(let ((?x1312 (select ?x730 in_a)))
(let (($x805 (= (select ?x730 alloc@0) (ite (<= ?x1312 ?x1317) ?x1312 ?x1317))))
(not $x805))))))))
(check-sat)
