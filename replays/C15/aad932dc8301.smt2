; benchmark generated from python API
(set-info :status unknown)
(declare-sort Str 0)
(declare-datatypes ((Any 0)) (((nil) (other (other_ty Int) (other_id Int)) (mk0 (c0_f0 Int)) (mk1 (c1_f0 Int)) (mk2 (c2_f0 Int)) (mk3 (c3_f0 Int)) (mk4 (c4_f0 Int)) (mk5 (c5_f0 Int)) (mk6 (c6_f0 Int)) (mk7 (c7_f0 Int)) (mk8 (c8_f0 Int)) (mk9 (c9_f0 Int)) (mk10 (c10_f0 Int)) (mk11 (c11_f0 Int)) (mk12 (c12_f0 Int)) (mk13 (c13_f0 Int)) (mk14 (c14_f0 Int)) (mk15 (c15_f0 Int)) (mk16 (c16_f0 Int)) (mk17 (c17_f0 Int)) (mk18 (c18_f0 Int)) (mk19 (c19_f0 Int)) (mk20 (c20_f0 Int)) (mk21 (c21_f0 Int)) (mk22 (c22_f0 Int)) (mk23 (c23_f0 Int)) (mk24 (c24_f0 Int)) (mk25 (c25_f0 Int)) (mk26 (c26_f0 Int)) (mk27 (c27_f0 Int)) (mk28 (c28_f0 Int)) (mk29 (c29_f0 Int)) (mk30 (c30_f0 Int)) (mk31 (c31_f0 Int)) (mk32 (c32_f0 Int)) (mk33 (c33_f0 Int)) (mk34 (c34_f0 Int)) (mk35 (c35_f0 Int)) (mk36 (c36_f0 Int)) (mk37 (c37_f0 Int)) (mk38 (c38_f0 Int)) (mk39 (c39_f0 Int)) (mk40 (c40_f0 Int)) (mk41 (c41_f0 Int)) (mk42 (c42_f0 Int)) (mk43 (c43_f0 Int)) (mk44 (c44_f0 Int)) (mk45 (c45_f0 Int)) (mk46 (c46_f0 Int)) (mk47 (c47_f0 Int)) (mk48 (c48_f0 Int)) (mk49 (c49_f0 Int)) (mk50 (c50_f0 Int)) (mk51 (c51_f0 Int)) (mk52 (c52_f0 Int)) (mk53 (c53_f0 Int)) (mk54 (c54_f0 Int)) (mk55 (c55_f0 Int)) (mk56 (c56_f0 Int)) (mk57 (c57_f0 Int)) (mk58 (c58_f0 Int)) (mk59 (c59_f0 Int)) (mk60 (c60_f0 Int)) (mk61 (c61_f0 Int)) (mk62 (c62_f0 Int)) (mk63 (c63_f0 Int)) (mk64 (c64_f0 Int)) (mk65 (c65_f0 Int)) (mk66 (c66_f0 Int)) (mk67 (c67_f0 Int)) (mk68 (c68_f0 Int)) (mk69 (c69_f0 Int)) (mk70 (c70_f0 Int)) (mk71 (c71_f0 Int)) (mk72 (c72_f0 Int)) (mk73 (c73_f0 Int)) (mk74 (c74_f0 Int)) (mk75 (c75_f0 Int)) (mk76 (c76_f0 Int)) (mk77 (c77_f0 Int)) (mk78 (c78_f0 Int)) (mk79 (c79_f0 Int)) (mk80 (c80_f0 Int)) (mk81 (c81_f0 Int)) (mk82 (c82_f0 Int)) (mk83 (c83_f0 Int)) (mk84 (c84_f0 Int)) (mk85 (c85_f0 Int)) (mk86 (c86_f0 Int)) (mk87 (c87_f0 Int)) (mk88 (c88_f0 Int)) (mk89 (c89_f0 Int)) (mk90 (c90_f0 Int)) (mk91 (c91_f0 Int)) (mk92 (c92_f0 Int)) (mk93 (c93_f0 Int)) (mk94 (c94_f0 Int)) (mk95 (c95_f0 Int)) (mk96 (c96_f0 Int)) (mk97 (c97_f0 Int)) (mk98 (c98_f0 Int)) (mk99 (c99_f0 Int)) (mk100 (c100_f0 Int)) (mk101 (c101_f0 Int)) (mk102 (c102_f0 Int)) (mk103 (c103_f0 Int)) (mk104 (c104_f0 Int)) (mk105 (c105_f0 Int)) (mk106 (c106_f0 Int)) (mk107 (c107_f0 Int)) (mk108 (c108_f0 Int)) (mk109 (c109_f0 Int)) (mk110 (c110_f0 Int)) (mk111 (c111_f0 Int)) (mk112 (c112_f0 Int)) (mk113 (c113_f0 Int)) (mk114 (c114_f0 Int)) (mk115 (c115_f0 Int)) (mk116 (c116_f0 Int)) (mk117 (c117_f0 Int)) (mk118 (c118_f0 Int)) (mk119 (c119_f0 Int)) (mk120 (c120_f0 Int)) (mk121 (c121_f0 Int)) (mk122 (c122_f0 Int)) (mk123 (c123_f0 Int)) (mk124 (c124_f0 Int)) (mk125 (c125_f0 Int)) (mk126 (c126_f0 Int)) (mk127 (c127_f0 Int)) (mk128 (c128_f0 Int)) (mk129 (c129_f0 Int)) (mk130 (c130_f0 Int)) (mk131 (c131_f0 Int)) (mk132 (c132_f0 Int)) (mk133 (c133_f0 Int)) (mk134 (c134_f0 Int)) (mk135 (c135_f0 Int)) (mk136 (c136_f0 Int)) (mk137 (c137_f0 Int)) (mk138 (c138_f0 Int)) (mk139 (c139_f0 Int)) (mk140 (c140_f0 Int)) (mk141 (c141_f0 Int)) (mk142 (c142_f0 Int)) (mk143 (c143_f0 Int)) (mk144 (c144_f0 Int)) (mk145 (c145_f0 Int)) (mk146 (c146_f0 Int) (c146_f1 Int) (c146_f2 Int)) (mk147 (c147_f0 Int) (c147_f1 Int) (c147_f2 Int)) (mk148 (c148_f0 Int) (c148_f1 Int) (c148_f2 Int)) (mk149 (c149_f0 Int) (c149_f1 Int) (c149_f2 Int)) (mk150 (c150_f0 Int) (c150_f1 Int) (c150_f2 Int)) (mk151 (c151_f0 Int)) (mk152 (c152_f0 Int) (c152_f1 Int) (c152_f2 Int) (c152_f3 Str)) (mk153 (c153_f0 Int) (c153_f1 Int) (c153_f2 Int) (c153_f3 Str) (c153_f4 Str)) (mk154 (c154_f0 Str)) (mk155 (c155_f0 Str)) (mk156 (c156_f0 Int) (c156_f1 Int) (c156_f2 Int) (c156_f3 Int) (c156_f4 Int) (c156_f5 Int)) (mk157 (c157_f0 Int) (c157_f1 Int) (c157_f2 Int) (c157_f3 Int) (c157_f4 Str) (c157_f5 Str)) (mk158 (c158_f0 Int) (c158_f1 Int) (c158_f2 Int) (c158_f3 Int) (c158_f4 Str)) (mk159 (c159_f0 Int) (c159_f1 Int) (c159_f2 Int) (c159_f3 Int) (c159_f4 Str)) (mk160 (c160_f0 Int) (c160_f1 Int) (c160_f2 Int) (c160_f3 Int)) (mk161 (c161_f0 Int) (c161_f1 Int) (c161_f2 Int) (c161_f3 Int) (c161_f4 Real)) (mk162 (c162_f0 Int) (c162_f1 Int) (c162_f2 Int) (c162_f3 Int) (c162_f4 Str)) (mk163 (c163_f0 Int) (c163_f1 Int) (c163_f2 Int) (c163_f3 Int) (c163_f4 Str)) (mk164 (c164_f0 Int) (c164_f1 Int) (c164_f2 Int) (c164_f3 Int) (c164_f4 Str)) (mk165 (c165_f0 Int) (c165_f1 Int) (c165_f2 Int) (c165_f3 Int) (c165_f4 Str)) (mk166 (c166_f0 Int) (c166_f1 Int) (c166_f2 Int) (c166_f3 Int) (c166_f4 Str) (c166_f5 Str)) (mk167 (c167_f0 Int) (c167_f1 Int) (c167_f2 Int) (c167_f3 Int) (c167_f4 Str) (c167_f5 Str)) (mk168 (c168_f0 Int) (c168_f1 Int) (c168_f2 Int) (c168_f3 Int) (c168_f4 Str) (c168_f5 Int) (c168_f6 Int)) (mk169 (c169_f0 Int) (c169_f1 Int) (c169_f2 Int) (c169_f3 Int) (c169_f4 Str)) (mk170 (c170_f0 Int) (c170_f1 Str)) (mk171 (c171_f0 Int)) (mk172 (c172_f0 Int) (c172_f1 Int) (c172_f2 Int) (c172_f3 Int) (c172_f4 Int)) (mk173 (c173_f0 Int) (c173_f1 Int) (c173_f2 Int) (c173_f3 Int) (c173_f4 Str) (c173_f5 Int)) (mk174 (c174_f0 Real)) (mk175 (c175_f0 Int) (c175_f1 Int) (c175_f2 Int) (c175_f3 Int) (c175_f4 Any)) (mk176 (c176_f0 Int) (c176_f1 Int) (c176_f2 Int) (c176_f3 Int) (c176_f4 Any)) (mk177 (c177_f0 Str) (c177_f1 Int)) (mk178 (c178_f0 Int) (c178_f1 Int)) (mk179 (c179_f0 Str)) (mk180 (c180_f0 Int) (c180_f1 Int) (c180_f2 Int) (c180_f3 Int) (c180_f4 Str) (c180_f5 Any)) (mk181 (c181_f0 Int) (c181_f1 Int) (c181_f2 Int) (c181_f3 Int) (c181_f4 Str)) (mk182 (c182_f0 Int) (c182_f1 Int) (c182_f2 Int) (c182_f3 Int) (c182_f4 Str)) (mk183 (c183_f0 Any) (c183_f1 Int) (c183_f2 Bool) (c183_f3 Int) (c183_f4 Any) (c183_f5 Bool) (c183_f6 Any) (c183_f7 Any) (c183_f8 Bool) (c183_f9 Bool) (c183_f10 Bool) (c183_f11 Any) (c183_f12 Int) (c183_f13 Int) (c183_f14 Any) (c183_f15 Bool) (c183_f16 Bool) (c183_f17 Bool) (c183_f18 Int) (c183_f19 Any) (c183_f20 Any) (c183_f21 Any) (c183_f22 Int) (c183_f23 Any) (c183_f24 Any) (c183_f25 Any) (c183_f26 Int) (c183_f27 Bool) (c183_f28 Str) (c183_f29 Any) (c183_f30 Any) (c183_f31 Str) (c183_f32 Str)) (mk184 (c184_f0 Str) (c184_f1 Int) (c184_f2 Int) (c184_f3 Int) (c184_f4 Int)) (mk185 (c185_f0 Bool) (c185_f1 Real) (c185_f2 Bool) (c185_f3 Bool) (c185_f4 Int)) (mk186 (c186_f0 Int) (c186_f1 Int) (c186_f2 Int) (c186_f3 Int) (c186_f4 Str)) (mk187 (c187_f0 Int) (c187_f1 Int) (c187_f2 Int) (c187_f3 Int) (c187_f4 Str)) (mk188 (c188_f0 Int) (c188_f1 Int) (c188_f2 Int) (c188_f3 Int) (c188_f4 Str) (c188_f5 Any) (c188_f6 Any)) (mk189 (c189_f0 Any)) (mk190 (c190_f0 Int) (c190_f1 Int) (c190_f2 Int) (c190_f3 Int) (c190_f4 Int) (c190_f5 Int) (c190_f6 Int)) (mk191 (c191_f0 Int) (c191_f1 Int) (c191_f2 Int) (c191_f3 Int) (c191_f4 Any) (c191_f5 Any)) (mk192 (c192_f0 Int) (c192_f1 Int) (c192_f2 Int) (c192_f3 Int) (c192_f4 Int) (c192_f5 Int) (c192_f6 Int) (c192_f7 Any)) (mk193 (c193_f0 Int) (c193_f1 Int) (c193_f2 Int) (c193_f3 Int) (c193_f4 Any) (c193_f5 Any)) (mk194 (c194_f0 Int) (c194_f1 Int) (c194_f2 Int) (c194_f3 Int)) (mk195 (c195_f0 Int) (c195_f1 Int) (c195_f2 Int) (c195_f3 Int) (c195_f4 Int) (c195_f5 Int) (c195_f6 Int) (c195_f7 Int)) (mk196 (c196_f0 Int) (c196_f1 Int) (c196_f2 Int) (c196_f3 Int) (c196_f4 Str)) (mk197 (c197_f0 Str)) (mk198 (c198_f0 Int) (c198_f1 Int) (c198_f2 Int) (c198_f3 Int) (c198_f4 Any) (c198_f5 Any)) (mk199 (c199_f0 Int) (c199_f1 Int) (c199_f2 Int) (c199_f3 Int) (c199_f4 Int)) (mk200 (c200_f0 Int) (c200_f1 Int) (c200_f2 Int) (c200_f3 Int)) (mk201 (c201_f0 Int) (c201_f1 Int) (c201_f2 Int) (c201_f3 Int) (c201_f4 Int) (c201_f5 Int)) (mk202 (c202_f0 Int) (c202_f1 Int) (c202_f2 Int) (c202_f3 Int)) (mk203 (c203_f0 Int) (c203_f1 Int) (c203_f2 Int) (c203_f3 Int) (c203_f4 Any) (c203_f5 Any)) (mk204 (c204_f0 Int) (c204_f1 Int) (c204_f2 Int) (c204_f3 Int) (c204_f4 Any) (c204_f5 Any) (c204_f6 Any)) (mk205 (c205_f0 Int) (c205_f1 Int) (c205_f2 Int) (c205_f3 Int) (c205_f4 Any)) (mk206 (c206_f0 Int) (c206_f1 Int) (c206_f2 Int) (c206_f3 Int) (c206_f4 Any)) (mk207 (c207_f0 Any)) (mk208 (c208_f0 Int) (c208_f1 Int) (c208_f2 Int) (c208_f3 Int) (c208_f4 Int) (c208_f5 Int) (c208_f6 Int)) (mk209 (c209_f0 Int) (c209_f1 Int) (c209_f2 Int) (c209_f3 Int) (c209_f4 Any) (c209_f5 Any)) (mk210 (c210_f0 Int) (c210_f1 Int) (c210_f2 Int) (c210_f3 Int) (c210_f4 Any) (c210_f5 Any)) (mk211 (c211_f0 Int) (c211_f1 Int) (c211_f2 Int) (c211_f3 Int) (c211_f4 Int) (c211_f5 Int) (c211_f6 Int)) (mk212 (c212_f0 Int) (c212_f1 Int) (c212_f2 Int) (c212_f3 Int) (c212_f4 Any) (c212_f5 Int)) (mk213 (c213_f0 Int) (c213_f1 Int) (c213_f2 Int) (c213_f3 Int) (c213_f4 Str)) (mk214 (c214_f0 Int) (c214_f1 Int) (c214_f2 Int) (c214_f3 Int) (c214_f4 Str)) (mk215 (c215_f0 Int) (c215_f1 Int) (c215_f2 Int) (c215_f3 Int) (c215_f4 Int) (c215_f5 Int) (c215_f6 Int)) (mk216 (c216_f0 Int) (c216_f1 Int) (c216_f2 Int) (c216_f3 Int) (c216_f4 Str)) (mk217 (c217_f0 Str) (c217_f1 Int) (c217_f2 Int) (c217_f3 Str) (c217_f4 Bool) (c217_f5 Bool) (c217_f6 Int) (c217_f7 Int) (c217_f8 Int) (c217_f9 Int)) (mk218 (c218_f0 Int) (c218_f1 Str) (c218_f2 Bool) (c218_f3 Int) (c218_f4 Int) (c218_f5 Int)) (mk219 (c219_f0 Int)) (mk220 (c220_f0 Int)) (mk221 (c221_f0 Int)) (mk222 (c222_f0 Str)))))
(declare-fun str_3 () Str)
(declare-fun str_2 () Str)
(declare-fun str_1 () Str)
(declare-fun str_0 () Str)
(declare-fun slen (Str) Int)
(declare-fun srunes (Str) Int)
(declare-fun alloc@0 () Int)
(declare-fun in_ctx () Any)
(declare-fun |ext_m_GetText:string#0| (Any) Str)
(declare-fun t!t () Any)
(declare-fun |ext_m_GetStop:v4.Token#0| (Any) Any)
(declare-fun |ext_m_GetStart:v4.Token#0| (Any) Any)
(declare-fun |ext_m_Allotment:antlr.IAllotmentContext#0| (Any) Any)
(declare-fun |ext_m_Portion:antlr.IPortionContext#0| (Any) Any)
(declare-fun |ext_m_MonetaryLit:antlr.IMonetaryLitContext#0| (Any) Any)
(declare-fun |ext_m_NUMBER:v4.TerminalNode#0| (Any) Any)
(declare-fun |ext_m_SentAllLit:antlr.ISentAllLitContext#0| (Any) Any)
(declare-fun |ext_m_SentValue:antlr.ISentValueContext#0| (Any) Any)
(declare-fun |ext_m_GetOp:v4.Token#0| (Any) Any)
(declare-fun |ext_m_GetSymbol:v4.Token#0| (Any) Any)
(declare-fun c!t () Int)
(declare-fun isnumeral (Str Int) Bool)
(declare-fun trimspace (Str) Str)
(declare-fun splitpart (Str Str Int) Str)
(declare-fun nsplit (Str Str) Int)
(declare-fun sconcat (Str Str) Str)
(declare-fun cutafter (Str Str) Str)
(declare-fun trimsuffix (Str Str) Str)
(declare-fun cutbefore (Str Str) Str)
(declare-fun |ext_m_ValueExpr:antlr.IValueExprContext#0| (Any) Any)
(declare-fun |ext_m_GetLine:int#0| (Any) Int)
(declare-fun |ext_m_GetColumn:int#0| (Any) Int)
(declare-fun |H\|parser.Range\|End.Character\|Int@0| () (Array Int Int))
(assert
 (and (distinct str_0 str_1 str_2 str_3) true))
(assert
 (= (slen str_0) 0))
(assert
 (= (srunes str_0) 0))
(assert
 (= (slen str_1) 1))
(assert
 (= (srunes str_1) 1))
(assert
 (= (slen str_2) 1))
(assert
 (= (srunes str_2) 1))
(assert
 (= (slen str_3) 1))
(assert
 (= (srunes str_3) 1))
(assert
 (>= alloc@0 1))
(assert
 (not (= in_ctx nil)))
(assert
 (>= (slen (|ext_m_GetText:string#0| t!t)) 0))
(assert
 (>= (slen (|ext_m_GetText:string#0| t!t)) 0))
(assert
 (>= (slen (|ext_m_GetText:string#0| t!t)) 0))
(assert
 (>= (slen (|ext_m_GetText:string#0| t!t)) 0))
(assert
 (forall ((t!t Any) )(! (let ((?x28 (|ext_m_GetText:string#0| t!t)))
 (let ((?x29 (slen ?x28)))
 (let ((?x30 (srunes ?x28)))
 (let (($x36 (= t!t nil)))
 (let (($x37 (not $x36)))
 (=> $x37 (and (and (<= 1 ?x29) (<= 1 ?x30)) (<= ?x30 ?x29)))))))) :qid q_t_t_nopat))
 )
(assert
 (forall ((c!t Any) )(! (let (($x48 (and (not (= (|ext_m_GetStart:v4.Token#0| c!t) nil)) (not (= (|ext_m_GetStop:v4.Token#0| c!t) nil)))))
 (let (($x36 (= c!t nil)))
 (let (($x37 (not $x36)))
 (=> $x37 $x48)))) :qid q_c_t_nopat))
 )
(assert
 (forall ((c!t Any) )(! (let (($x40 (not (= (|ext_m_Allotment:antlr.IAllotmentContext#0| c!t) nil))))
 (let (($x36 (= c!t nil)))
 (let (($x37 (not $x36)))
 (=> $x37 $x40)))) :qid q_c_t_nopat))
 )
(assert
 (forall ((c!t Any) )(! (let (($x40 (not (= (|ext_m_Allotment:antlr.IAllotmentContext#0| c!t) nil))))
 (let (($x36 (= c!t nil)))
 (let (($x37 (not $x36)))
 (=> $x37 $x40)))) :qid q_c_t_nopat))
 )
(assert
 (forall ((c!t Int) )(! (let (($x57 (not (= (|ext_m_Portion:antlr.IPortionContext#0| (mk123 c!t)) nil))))
 (let (($x58 (= c!t 0)))
 (let (($x59 (not $x58)))
 (=> $x59 $x57)))) :qid q_c_t_nopat))
 )
(assert
 (forall ((c!t Int) )(! (let (($x65 (not (= (|ext_m_Portion:antlr.IPortionContext#0| (mk125 c!t)) nil))))
 (let (($x58 (= c!t 0)))
 (let (($x59 (not $x58)))
 (=> $x59 $x65)))) :qid q_c_t_nopat))
 )
(assert
 (forall ((c!t Int) )(! (let (($x71 (not (= (|ext_m_MonetaryLit:antlr.IMonetaryLitContext#0| (mk118 c!t)) nil))))
 (let (($x58 (= c!t 0)))
 (let (($x59 (not $x58)))
 (=> $x59 $x71)))) :qid q_c_t_nopat))
 )
(assert
 (forall ((c!t Int) )(! (let (($x77 (not (= (|ext_m_NUMBER:v4.TerminalNode#0| (mk119 c!t)) nil))))
 (let (($x58 (= c!t 0)))
 (let (($x59 (not $x58)))
 (=> $x59 $x77)))) :qid q_c_t_nopat))
 )
(assert
 (forall ((c!t Int) )(! (let (($x83 (not (= (|ext_m_SentAllLit:antlr.ISentAllLitContext#0| (mk130 c!t)) nil))))
 (let (($x58 (= c!t 0)))
 (let (($x59 (not $x58)))
 (=> $x59 $x83)))) :qid q_c_t_nopat))
 )
(assert
 (forall ((c!t Int) )(! (let (($x89 (not (= (|ext_m_SentValue:antlr.ISentValueContext#0| (mk128 c!t)) nil))))
 (let (($x58 (= c!t 0)))
 (let (($x59 (not $x58)))
 (=> $x59 $x89)))) :qid q_c_t_nopat))
 )
(assert
 (forall ((c!t Int) )(! (let (($x95 (not (= (|ext_m_SentValue:antlr.ISentValueContext#0| (mk129 c!t)) nil))))
 (let (($x58 (= c!t 0)))
 (let (($x59 (not $x58)))
 (=> $x59 $x95)))) :qid q_c_t_nopat))
 )
(assert
 (forall ((c!t Int) )(! (let (($x101 (not (= (|ext_m_GetOp:v4.Token#0| (mk116 c!t)) nil))))
 (let (($x58 (= c!t 0)))
 (let (($x59 (not $x58)))
 (=> $x59 $x101)))) :qid q_c_t_nopat))
 )
(assert
 (forall ((n!t Any) )(! (let (($x105 (not (= (|ext_m_GetSymbol:v4.Token#0| n!t) nil))))
 (let (($x36 (= n!t nil)))
 (let (($x37 (not $x36)))
 (=> $x37 $x105)))) :qid q_n_t_nopat))
 )
(assert
 (>= (slen (|ext_m_GetText:string#0| (mk141 c!t))) 0))
(assert
 (forall ((c!t Int) )(! (let (($x58 (= c!t 0)))
 (let (($x59 (not $x58)))
 (=> $x59 (<= 2 (slen (|ext_m_GetText:string#0| (mk141 c!t))))))) :qid q_c_t_nopat))
 )
(assert
 (>= (slen (|ext_m_GetText:string#0| (mk106 c!t))) 0))
(assert
 (forall ((c!t Int) )(! (let (($x58 (= c!t 0)))
 (let (($x59 (not $x58)))
 (=> $x59 (<= 2 (slen (|ext_m_GetText:string#0| (mk106 c!t))))))) :qid q_c_t_nopat))
 )
(assert
 (>= (slen (|ext_m_GetText:string#0| (mk143 c!t))) 0))
(assert
 (forall ((c!t Int) )(! (let (($x58 (= c!t 0)))
 (let (($x59 (not $x58)))
 (=> $x59 (<= 2 (slen (|ext_m_GetText:string#0| (mk143 c!t))))))) :qid q_c_t_nopat))
 )
(assert
 (>= (slen (|ext_m_GetText:string#0| (mk124 c!t))) 0))
(assert
 (forall ((c!t Int) )(! (let (($x58 (= c!t 0)))
 (let (($x59 (not $x58)))
 (=> $x59 (<= 2 (slen (|ext_m_GetText:string#0| (mk124 c!t))))))) :qid q_c_t_nopat))
 )
(assert
 (>= (slen (|ext_m_GetText:string#0| (mk126 c!t))) 0))
(assert
 (forall ((c!t Int) )(! (let ((?x165 (trimspace (splitpart (|ext_m_GetText:string#0| (mk126 c!t)) str_1 1))))
 (let (($x166 (isnumeral ?x165 10)))
 (let ((?x168 (trimspace (splitpart (|ext_m_GetText:string#0| (mk126 c!t)) str_1 0))))
 (let (($x169 (isnumeral ?x168 10)))
 (let (($x172 (and (= 2 (nsplit (|ext_m_GetText:string#0| (mk126 c!t)) str_1)) $x169)))
 (let (($x58 (= c!t 0)))
 (let (($x59 (not $x58)))
 (=> $x59 (and $x172 $x166))))))))) :qid q_c_t_nopat))
 )
(assert
 (>= (slen (|ext_m_GetText:string#0| (mk121 c!t))) 0))
(assert
 (forall ((c!t Int) )(! (let ((?x179 (trimsuffix (|ext_m_GetText:string#0| (mk121 c!t)) str_2)))
 (let (($x183 (isnumeral (sconcat (cutbefore ?x179 str_3) (cutafter ?x179 str_3)) 10)))
 (let (($x58 (= c!t 0)))
 (let (($x59 (not $x58)))
 (=> $x59 $x183))))) :qid q_c_t_nopat))
 )
(assert
 (forall ((c!t Int) )(! (let ((?x68 (mk118 c!t)))
 (let ((?x69 (|ext_m_MonetaryLit:antlr.IMonetaryLitContext#0| ?x68)))
 (let (($x199 (and (= (|ext_m_GetStart:v4.Token#0| ?x68) (|ext_m_GetStart:v4.Token#0| ?x69)) (= (|ext_m_GetStop:v4.Token#0| ?x68) (|ext_m_GetStop:v4.Token#0| ?x69)))))
 (let (($x71 (not (= ?x69 nil))))
 (let (($x58 (= c!t 0)))
 (let (($x59 (not $x58)))
 (let (($x200 (and $x59 $x71)))
 (=> $x200 $x199)))))))) :qid q_c_t_nopat))
 )
(assert
 (forall ((c!t Int) )(! (let ((?x54 (mk123 c!t)))
 (let ((?x55 (|ext_m_Portion:antlr.IPortionContext#0| ?x54)))
 (let (($x209 (and (= (|ext_m_GetStart:v4.Token#0| ?x54) (|ext_m_GetStart:v4.Token#0| ?x55)) (= (|ext_m_GetStop:v4.Token#0| ?x54) (|ext_m_GetStop:v4.Token#0| ?x55)))))
 (let (($x57 (not (= ?x55 nil))))
 (let (($x58 (= c!t 0)))
 (let (($x59 (not $x58)))
 (let (($x210 (and $x59 $x57)))
 (=> $x210 $x209)))))))) :qid q_c_t_nopat))
 )
(assert
 (forall ((c!t Int) )(! (let ((?x74 (mk119 c!t)))
 (let ((?x75 (|ext_m_NUMBER:v4.TerminalNode#0| ?x74)))
 (let ((?x192 (|ext_m_GetSymbol:v4.Token#0| ?x75)))
 (let (($x217 (and (= (|ext_m_GetStart:v4.Token#0| ?x74) ?x192) (= (|ext_m_GetStop:v4.Token#0| ?x74) ?x192))))
 (let (($x77 (not (= ?x75 nil))))
 (let (($x58 (= c!t 0)))
 (let (($x59 (not $x58)))
 (let (($x218 (and $x59 $x77)))
 (=> $x218 $x217))))))))) :qid q_c_t_nopat))
 )
(assert
 (forall ((c!t Int) )(! (let ((?x222 (mk135 c!t)))
 (let ((?x223 (|ext_m_ValueExpr:antlr.IValueExprContext#0| ?x222)))
 (let (($x230 (and (= (|ext_m_GetStart:v4.Token#0| ?x222) (|ext_m_GetStart:v4.Token#0| ?x223)) (= (|ext_m_GetStop:v4.Token#0| ?x222) (|ext_m_GetStop:v4.Token#0| ?x223)))))
 (let (($x58 (= c!t 0)))
 (let (($x59 (not $x58)))
 (let (($x233 (and $x59 (not (= ?x223 nil)))))
 (=> $x233 $x230))))))) :qid q_c_t_nopat))
 )
(assert
 (forall ((c!t Int) )(! (let ((?x236 (mk109 c!t)))
 (let ((?x237 (|ext_m_ValueExpr:antlr.IValueExprContext#0| ?x236)))
 (let (($x244 (and (= (|ext_m_GetStart:v4.Token#0| ?x236) (|ext_m_GetStart:v4.Token#0| ?x237)) (= (|ext_m_GetStop:v4.Token#0| ?x236) (|ext_m_GetStop:v4.Token#0| ?x237)))))
 (let (($x58 (= c!t 0)))
 (let (($x59 (not $x58)))
 (let (($x247 (and $x59 (not (= ?x237 nil)))))
 (=> $x247 $x244))))))) :qid q_c_t_nopat))
 )
(assert
 (forall ((c!t Int) )(! (let ((?x62 (mk125 c!t)))
 (let ((?x63 (|ext_m_Portion:antlr.IPortionContext#0| ?x62)))
 (let (($x256 (and (= (|ext_m_GetStart:v4.Token#0| ?x62) (|ext_m_GetStart:v4.Token#0| ?x63)) (= (|ext_m_GetStop:v4.Token#0| ?x62) (|ext_m_GetStop:v4.Token#0| ?x63)))))
 (let (($x65 (not (= ?x63 nil))))
 (let (($x58 (= c!t 0)))
 (let (($x59 (not $x58)))
 (let (($x257 (and $x59 $x65)))
 (=> $x257 $x256)))))))) :qid q_c_t_nopat))
 )
(assert
 (let ((?x156 (|ext_m_GetLine:int#0| t!t)))
 (let (($x161 (<= ?x156 9223372036854775807)))
 (let (($x159 (>= ?x156 (- 9223372036854775808))))
 (and $x159 $x161)))))
(assert
 (let ((?x187 (|ext_m_GetColumn:int#0| t!t)))
 (let (($x189 (<= ?x187 9223372036854775807)))
 (let (($x188 (>= ?x187 (- 9223372036854775808))))
 (and $x188 $x189)))))
(assert
 (forall ((t!t Any) )(! (let (($x265 (and (<= 1 (|ext_m_GetLine:int#0| t!t)) (<= 0 (|ext_m_GetColumn:int#0| t!t)))))
 (let (($x36 (= t!t nil)))
 (let (($x37 (not $x36)))
 (=> $x37 $x265)))) :qid q_t_t_nopat))
 )
(assert
 (and (distinct in_ctx nil) true))
(assert
 (not (= (|ext_m_GetStart:v4.Token#0| in_ctx) nil)))
(assert
 (and (distinct in_ctx nil) true))
(assert
 (not (= (|ext_m_GetStop:v4.Token#0| in_ctx) nil)))
(assert
 (not (= alloc@0 0)))
(assert
 (not (= alloc@0 0)))
(assert
 (let ((?x20 (|ext_m_GetStart:v4.Token#0| in_ctx)))
 (and (distinct ?x20 nil) true)))
(assert
 (let ((?x20 (|ext_m_GetStart:v4.Token#0| in_ctx)))
 (let ((?x282 (|ext_m_GetLine:int#0| ?x20)))
 (let (($x284 (<= ?x282 9223372036854775807)))
 (let (($x283 (>= ?x282 (- 9223372036854775808))))
 (and $x283 $x284))))))
(assert
 (let ((?x20 (|ext_m_GetStart:v4.Token#0| in_ctx)))
 (let ((?x282 (|ext_m_GetLine:int#0| ?x20)))
 (<= 1 ?x282))))
(assert
 (not (= alloc@0 0)))
(assert
 (let ((?x20 (|ext_m_GetStart:v4.Token#0| in_ctx)))
 (and (distinct ?x20 nil) true)))
(assert
 (let ((?x20 (|ext_m_GetStart:v4.Token#0| in_ctx)))
 (let ((?x288 (|ext_m_GetColumn:int#0| ?x20)))
 (let (($x290 (<= ?x288 9223372036854775807)))
 (let (($x289 (>= ?x288 (- 9223372036854775808))))
 (and $x289 $x290))))))
(assert
 (let ((?x20 (|ext_m_GetStart:v4.Token#0| in_ctx)))
 (let ((?x288 (|ext_m_GetColumn:int#0| ?x20)))
 (<= 0 ?x288))))
(assert
 (not (= alloc@0 0)))
(assert
 (not (= alloc@0 0)))
(assert
 (let ((?x221 (|ext_m_GetStop:v4.Token#0| in_ctx)))
 (and (distinct ?x221 nil) true)))
(assert
 (let ((?x221 (|ext_m_GetStop:v4.Token#0| in_ctx)))
 (let ((?x294 (|ext_m_GetLine:int#0| ?x221)))
 (let (($x296 (<= ?x294 9223372036854775807)))
 (let (($x295 (>= ?x294 (- 9223372036854775808))))
 (and $x295 $x296))))))
(assert
 (let ((?x221 (|ext_m_GetStop:v4.Token#0| in_ctx)))
 (let ((?x294 (|ext_m_GetLine:int#0| ?x221)))
 (<= 1 ?x294))))
(assert
 (not (= alloc@0 0)))
(assert
 (let ((?x221 (|ext_m_GetStop:v4.Token#0| in_ctx)))
 (and (distinct ?x221 nil) true)))
(assert
 (let ((?x221 (|ext_m_GetStop:v4.Token#0| in_ctx)))
 (let ((?x300 (|ext_m_GetColumn:int#0| ?x221)))
 (let (($x302 (<= ?x300 9223372036854775807)))
 (let (($x301 (>= ?x300 (- 9223372036854775808))))
 (and $x301 $x302))))))
(assert
 (let ((?x221 (|ext_m_GetStop:v4.Token#0| in_ctx)))
 (let ((?x300 (|ext_m_GetColumn:int#0| ?x221)))
 (<= 0 ?x300))))
(assert
 (let ((?x221 (|ext_m_GetStop:v4.Token#0| in_ctx)))
 (and (distinct ?x221 nil) true)))
(assert
 (let ((?x221 (|ext_m_GetStop:v4.Token#0| in_ctx)))
 (let ((?x305 (|ext_m_GetText:string#0| ?x221)))
 (let ((?x306 (slen ?x305)))
 (>= ?x306 0)))))
(assert
 (not (= alloc@0 0)))
(assert
 (not (= alloc@0 0)))
(assert
 (not (= alloc@0 0)))
(assert
 (not (= alloc@0 0)))
(assert
 (not (= alloc@0 0)))
(assert
 (let ((?x20 (|ext_m_GetStart:v4.Token#0| in_ctx)))
 (let ((?x282 (|ext_m_GetLine:int#0| ?x20)))
 (let (($x284 (<= ?x282 9223372036854775807)))
 (let (($x283 (>= ?x282 (- 9223372036854775808))))
 (and $x283 $x284))))))
(assert
 (let ((?x20 (|ext_m_GetStart:v4.Token#0| in_ctx)))
 (let ((?x288 (|ext_m_GetColumn:int#0| ?x20)))
 (let (($x290 (<= ?x288 9223372036854775807)))
 (let (($x289 (>= ?x288 (- 9223372036854775808))))
 (and $x289 $x290))))))
(assert
 (let ((?x221 (|ext_m_GetStop:v4.Token#0| in_ctx)))
 (let ((?x294 (|ext_m_GetLine:int#0| ?x221)))
 (let (($x296 (<= ?x294 9223372036854775807)))
 (let (($x295 (>= ?x294 (- 9223372036854775808))))
 (and $x295 $x296))))))
(assert
 (let ((?x221 (|ext_m_GetStop:v4.Token#0| in_ctx)))
 (let ((?x300 (|ext_m_GetColumn:int#0| ?x221)))
 (let (($x302 (<= ?x300 9223372036854775807)))
 (let (($x301 (>= ?x300 (- 9223372036854775808))))
 (and $x301 $x302))))))
(assert
 (let ((?x221 (|ext_m_GetStop:v4.Token#0| in_ctx)))
 (let ((?x305 (|ext_m_GetText:string#0| ?x221)))
 (let ((?x306 (slen ?x305)))
 (>= ?x306 0)))))
(assert
 (let ((?x221 (|ext_m_GetStop:v4.Token#0| in_ctx)))
(let ((?x305 (|ext_m_GetText:string#0| ?x221)))
(let ((?x320 (srunes ?x305)))
(let ((?x300 (|ext_m_GetColumn:int#0| ?x221)))
(let ((?x306 (slen ?x305)))
(let ((?x308 (+ ?x300 ?x306)))
(let ((?x312 (store (store |H\|parser.Range\|End.Character\|Int@0| alloc@0 0) alloc@0 ?x308)))
(let ((?x315 (select ?x312 alloc@0)))
(let (($x322 (= ?x315 (+ ?x300 ?x320))))
(not $x322)))))))))))
(check-sat)
