; benchmark generated from python API
(set-info :status unknown)
(declare-sort Str 0)
(declare-fun str_1 () Str)
(declare-fun str_0 () Str)
(declare-fun slen (Str) Int)
(declare-fun srunes (Str) Int)
(declare-fun alloc@0 () Int)
(assert
 (and (distinct str_0 str_1) true))
(assert
 (= (slen str_0) 0))
(assert
 (= (srunes str_0) 0))
(assert
 (= (slen str_1) 4))
(assert
 (= (srunes str_1) 4))
(assert
 (>= alloc@0 1))
(assert
 (not (= alloc@0 0)))
(assert
 (not false))
(check-sat)
