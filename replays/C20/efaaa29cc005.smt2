; benchmark generated from python API
(set-info :status unknown)
(declare-sort Str 0)
(declare-fun str_1 () Str)
(declare-fun str_0 () Str)
(declare-fun slen (Str) Int)
(declare-fun srunes (Str) Int)
(declare-fun alloc@0 () Int)
(declare-fun bitlen (Int) Int)
(declare-fun in_v () Int)
(declare-fun |H\|bigint\|\|Int@0| () (Array Int Int))
(assert
 (and (distinct str_0 str_1) true))
(assert
 (= (slen str_0) 0))
(assert
 (= (srunes str_0) 0))
(assert
 (= (slen str_1) 4))
(assert
 (= (srunes str_1) 4))
(assert
 (>= alloc@0 1))
(assert
 (not (= alloc@0 0)))
(assert
 (not (= alloc@0 0)))
(assert
 (let ((?x18 (select (store (store |H\|bigint\|\|Int@0| alloc@0 0) alloc@0 in_v) alloc@0)))
 (let ((?x19 (bitlen ?x18)))
 (>= ?x19 0))))
(assert
 (let ((?x18 (select (store (store |H\|bigint\|\|Int@0| alloc@0 0) alloc@0 in_v) alloc@0)))
 (= (<= (bitlen ?x18) 64) (and (< ?x18 18446744073709551616) (> ?x18 (- 18446744073709551616))))))
(assert
 (let ((?x18 (select (store (store |H\|bigint\|\|Int@0| alloc@0 0) alloc@0 in_v) alloc@0)))
 (= (= (bitlen ?x18) 0) (= ?x18 0))))
(assert
 (let ((?x34 (bitlen in_v)))
 (>= 64 ?x34)))
(assert
 (not false))
(check-sat)
