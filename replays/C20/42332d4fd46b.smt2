; benchmark generated from python API
(set-info :status unknown)
(declare-sort Str 0)
(declare-fun str_1 () Str)
(declare-fun str_0 () Str)
(declare-fun slen (Str) Int)
(declare-fun srunes (Str) Int)
(declare-fun alloc@0 () Int)
(declare-fun bitlen (Int) Int)
(declare-fun in_v () Int)
(declare-fun |H\|interpreter.Monetary\|Amount\|Int@0| () (Array Int Int))
(declare-fun |H\|bigint\|\|Int@0| () (Array Int Int))
(assert
 (and (distinct str_0 str_1) true))
(assert
 (= (slen str_0) 0))
(assert
 (= (srunes str_0) 0))
(assert
 (= (slen str_1) 7))
(assert
 (= (srunes str_1) 7))
(assert
 (>= alloc@0 1))
(assert
 (not (= alloc@0 0)))
(assert
 (not (= alloc@0 0)))
(assert
 (not (= alloc@0 0)))
(assert
 (not (= alloc@0 (- 1))))
(assert
 (not (= alloc@0 0)))
(assert
 (not (= alloc@0 0)))
(assert
 (not (= alloc@0 (- 1))))
(assert
 (let ((?x10 (+ alloc@0 1)))
 (let ((?x18 (store (store |H\|interpreter.Monetary\|Amount\|Int@0| alloc@0 0) alloc@0 in_v)))
 (let ((?x26 (select ?x18 alloc@0)))
 (let ((?x29 (select (store (store |H\|bigint\|\|Int@0| ?x10 0) ?x10 ?x26) ?x10)))
 (let ((?x30 (bitlen ?x29)))
 (>= ?x30 0)))))))
(assert
 (let ((?x10 (+ alloc@0 1)))
 (let ((?x18 (store (store |H\|interpreter.Monetary\|Amount\|Int@0| alloc@0 0) alloc@0 in_v)))
 (let ((?x26 (select ?x18 alloc@0)))
 (let ((?x29 (select (store (store |H\|bigint\|\|Int@0| ?x10 0) ?x10 ?x26) ?x10)))
 (= (<= (bitlen ?x29) 64) (and (< ?x29 18446744073709551616) (> ?x29 (- 18446744073709551616)))))))))
(assert
 (let ((?x10 (+ alloc@0 1)))
 (let ((?x18 (store (store |H\|interpreter.Monetary\|Amount\|Int@0| alloc@0 0) alloc@0 in_v)))
 (let ((?x26 (select ?x18 alloc@0)))
 (let ((?x29 (select (store (store |H\|bigint\|\|Int@0| ?x10 0) ?x10 ?x26) ?x10)))
 (= (= (bitlen ?x29) 0) (= ?x29 0)))))))
(assert
 (let ((?x47 (bitlen in_v)))
 (>= 64 ?x47)))
(assert
 (not false))
(check-sat)
