; benchmark generated from python API
(set-info :status unknown)
(declare-sort Str 0)
(declare-fun slen (Str) Int)
(declare-fun str_0 () Str)
(declare-fun srunes (Str) Int)
(declare-fun alloc@0 () Int)
(declare-fun in_e () Int)
(declare-fun |H\|analysis.Parsing\|Description\|Str@0| () (Array Int Str))
(assert
 (= (slen str_0) 0))
(assert
 (= (srunes str_0) 0))
(assert
 (>= alloc@0 1))
(assert
 (let (($x5052 (>= in_e 0)))
 (and $x5052 (< in_e alloc@0))))
(assert
 (not (= in_e 0)))
(assert
 (not (= in_e 0)))
(assert
 (let ((?x3458 (select |H\|analysis.Parsing\|Description\|Str@0| in_e)))
(let ((?x4829 (slen ?x3458)))
(let (($x3407 (<= 0 ?x4829)))
(not $x3407)))))
(check-sat)
