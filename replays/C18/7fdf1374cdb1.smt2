; benchmark generated from python API
(set-info :status unknown)
(declare-sort Str 0)
(declare-fun slen (Str) Int)
(declare-fun str_0 () Str)
(declare-fun srunes (Str) Int)
(declare-fun alloc@0 () Int)
(declare-fun in_e () Int)
(declare-fun |H\|analysis.Parsing\|Description\|Str@0| () (Array Int Str))
(assert
 (= (slen str_0) 0))
(assert
 (= (srunes str_0) 0))
(assert
 (>= alloc@0 1))
(assert
 (let (($x15246 (>= in_e 0)))
 (and $x15246 (< in_e alloc@0))))
(assert
 (not (= in_e 0)))
(assert
 (not (= in_e 0)))
(assert
 (let ((?x18935 (select |H\|analysis.Parsing\|Description\|Str@0| in_e)))
(let ((?x18426 (slen ?x18935)))
(let (($x17102 (<= 0 ?x18426)))
(not $x17102)))))
(check-sat)
