; benchmark generated from python API
(set-info :status unknown)
(declare-sort Str 0)
(declare-fun str_2 () Str)
(declare-fun str_1 () Str)
(declare-fun str_0 () Str)
(declare-fun slen (Str) Int)
(declare-fun srunes (Str) Int)
(declare-fun |H\|map[string]struct{}\|\|Int@0| () (Array Int Int))
(declare-fun alloc@0 () Int)
(declare-fun in_e () Int)
(declare-fun glob_analysis_AllowedTypes () Int)
(assert
 (and (distinct str_0 str_1 str_2) true))
(assert
 (= (slen str_0) 0))
(assert
 (= (srunes str_0) 0))
(assert
 (= (slen str_1) 2))
(assert
 (= (srunes str_1) 2))
(assert
 (= (slen str_2) 47))
(assert
 (= (srunes str_2) 47))
(assert
 (forall ((r!wt Int) )(! (let ((?x7599 (select |H\|map[string]struct{}\|\|Int@0| r!wt)))
 (let (($x7602 (>= ?x7599 0)))
 (and $x7602 (< ?x7599 alloc@0)))) :pattern ( (select |H\|map[string]struct{}\|\|Int@0| r!wt) ) :qid q_r_wt_H_map_string_struct____Int_0))
 )
(assert
 (>= alloc@0 1))
(assert
 (let (($x15246 (>= in_e 0)))
 (and $x15246 (< in_e alloc@0))))
(assert
 (and (> glob_analysis_AllowedTypes 0) (< glob_analysis_AllowedTypes alloc@0)))
(assert
 (not (= glob_analysis_AllowedTypes 0)))
(assert
 (let ((?x18820 (select |H\|map[string]struct{}\|\|Int@0| glob_analysis_AllowedTypes)))
 (let (($x21956 (>= ?x18820 0)))
 (and $x21956 (< ?x18820 alloc@0)))))
(assert
 (not false))
(check-sat)
