; benchmark generated from python API
(set-info :status unknown)
(declare-sort Str 0)
(declare-fun str_7 () Str)
(declare-fun str_6 () Str)
(declare-fun str_5 () Str)
(declare-fun str_4 () Str)
(declare-fun str_3 () Str)
(declare-fun str_2 () Str)
(declare-fun str_1 () Str)
(declare-fun str_0 () Str)
(declare-fun slen (Str) Int)
(declare-fun srunes (Str) Int)
(declare-fun alloc@0 () Int)
(declare-fun in_typeName () Str)
(assert
 (and (distinct str_0 str_1 str_2 str_3 str_4 str_5 str_6 str_7) true))
(assert
 (= (slen str_0) 0))
(assert
 (= (srunes str_0) 0))
(assert
 (let ((?x6880 (slen str_1)))
 (= ?x6880 8)))
(assert
 (let ((?x5126 (srunes str_1)))
 (= ?x5126 8)))
(assert
 (let ((?x4216 (slen str_2)))
 (= ?x4216 7)))
(assert
 (let ((?x4473 (srunes str_2)))
 (= ?x4473 7)))
(assert
 (let ((?x2940 (slen str_3)))
 (= ?x2940 7)))
(assert
 (let ((?x5404 (srunes str_3)))
 (= ?x5404 7)))
(assert
 (let ((?x1437 (slen str_4)))
 (= ?x1437 5)))
(assert
 (let ((?x4730 (srunes str_4)))
 (= ?x4730 5)))
(assert
 (= (slen str_5) 6))
(assert
 (= (srunes str_5) 6))
(assert
 (= (slen str_6) 6))
(assert
 (= (srunes str_6) 6))
(assert
 (= (slen str_7) 3))
(assert
 (= (srunes str_7) 3))
(assert
 (>= alloc@0 1))
(assert
 (let (($x5014 (= in_typeName str_1)))
 (not $x5014)))
(assert
 (let (($x2853 (= in_typeName str_2)))
 (not $x2853)))
(assert
 (let (($x4880 (= in_typeName str_3)))
 (not $x4880)))
(assert
 (let (($x3718 (= in_typeName str_4)))
 (not $x3718)))
(assert
 (let (($x598 (= in_typeName str_5)))
 (not $x598)))
(assert
 (let (($x6383 (= in_typeName str_6)))
 (not $x6383)))
(assert
 (= in_typeName str_7))
(assert
 (let (($x6383 (= in_typeName str_6)))
(let (($x598 (= in_typeName str_5)))
(let (($x3718 (= in_typeName str_4)))
(let (($x4880 (= in_typeName str_3)))
(let (($x593 (or (or (or (= in_typeName str_1) (= in_typeName str_2)) $x4880) $x3718)))
(let (($x5789 (or (or $x593 $x598) $x6383)))
(let (($x4345 (= true $x5789)))
(not $x4345)))))))))
(check-sat)
