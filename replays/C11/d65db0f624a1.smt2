; benchmark generated from python API
(set-info :status unknown)
(declare-sort Str 0)
(declare-datatypes ((Any 0)) (((nil) (other (other_ty Int) (other_id Int)) (mk0 (c0_f0 Int)) (mk1 (c1_f0 Int)) (mk2 (c2_f0 Int)) (mk3 (c3_f0 Int)) (mk4 (c4_f0 Int)) (mk5 (c5_f0 Int)) (mk6 (c6_f0 Int)) (mk7 (c7_f0 Int)) (mk8 (c8_f0 Int)) (mk9 (c9_f0 Int)) (mk10 (c10_f0 Int)) (mk11 (c11_f0 Int)) (mk12 (c12_f0 Int)) (mk13 (c13_f0 Int)) (mk14 (c14_f0 Int)) (mk15 (c15_f0 Int)) (mk16 (c16_f0 Int)) (mk17 (c17_f0 Int)) (mk18 (c18_f0 Int)) (mk19 (c19_f0 Int)) (mk20 (c20_f0 Int)) (mk21 (c21_f0 Int)) (mk22 (c22_f0 Int)) (mk23 (c23_f0 Int)) (mk24 (c24_f0 Int)) (mk25 (c25_f0 Int)) (mk26 (c26_f0 Int)) (mk27 (c27_f0 Int)) (mk28 (c28_f0 Int)) (mk29 (c29_f0 Int)) (mk30 (c30_f0 Int)) (mk31 (c31_f0 Int)) (mk32 (c32_f0 Int)) (mk33 (c33_f0 Int)) (mk34 (c34_f0 Int)) (mk35 (c35_f0 Int)) (mk36 (c36_f0 Int)) (mk37 (c37_f0 Int)) (mk38 (c38_f0 Int)) (mk39 (c39_f0 Int)) (mk40 (c40_f0 Int)) (mk41 (c41_f0 Int)) (mk42 (c42_f0 Int)) (mk43 (c43_f0 Int)) (mk44 (c44_f0 Int)) (mk45 (c45_f0 Int)) (mk46 (c46_f0 Int)) (mk47 (c47_f0 Int)) (mk48 (c48_f0 Int)) (mk49 (c49_f0 Int)) (mk50 (c50_f0 Int)) (mk51 (c51_f0 Int)) (mk52 (c52_f0 Int)) (mk53 (c53_f0 Int)) (mk54 (c54_f0 Int)) (mk55 (c55_f0 Int)) (mk56 (c56_f0 Int)) (mk57 (c57_f0 Int)) (mk58 (c58_f0 Int)) (mk59 (c59_f0 Int)) (mk60 (c60_f0 Int)) (mk61 (c61_f0 Int)) (mk62 (c62_f0 Int)) (mk63 (c63_f0 Int)) (mk64 (c64_f0 Int)) (mk65 (c65_f0 Int)) (mk66 (c66_f0 Int)) (mk67 (c67_f0 Int)) (mk68 (c68_f0 Int)) (mk69 (c69_f0 Int)) (mk70 (c70_f0 Int)) (mk71 (c71_f0 Int)) (mk72 (c72_f0 Int)) (mk73 (c73_f0 Int)) (mk74 (c74_f0 Int)) (mk75 (c75_f0 Int)) (mk76 (c76_f0 Int)) (mk77 (c77_f0 Int)) (mk78 (c78_f0 Int)) (mk79 (c79_f0 Int)) (mk80 (c80_f0 Int)) (mk81 (c81_f0 Int)) (mk82 (c82_f0 Int)) (mk83 (c83_f0 Int)) (mk84 (c84_f0 Int)) (mk85 (c85_f0 Int)) (mk86 (c86_f0 Int)) (mk87 (c87_f0 Int)) (mk88 (c88_f0 Int)) (mk89 (c89_f0 Int)) (mk90 (c90_f0 Int)) (mk91 (c91_f0 Int)) (mk92 (c92_f0 Int)) (mk93 (c93_f0 Int)) (mk94 (c94_f0 Int)) (mk95 (c95_f0 Int)) (mk96 (c96_f0 Int)) (mk97 (c97_f0 Int)) (mk98 (c98_f0 Int)) (mk99 (c99_f0 Int)) (mk100 (c100_f0 Int)) (mk101 (c101_f0 Int)) (mk102 (c102_f0 Int)) (mk103 (c103_f0 Int)) (mk104 (c104_f0 Int)) (mk105 (c105_f0 Int)) (mk106 (c106_f0 Int)) (mk107 (c107_f0 Int)) (mk108 (c108_f0 Int)) (mk109 (c109_f0 Int)) (mk110 (c110_f0 Int)) (mk111 (c111_f0 Int)) (mk112 (c112_f0 Int)) (mk113 (c113_f0 Int)) (mk114 (c114_f0 Int)) (mk115 (c115_f0 Int)) (mk116 (c116_f0 Int)) (mk117 (c117_f0 Int)) (mk118 (c118_f0 Int)) (mk119 (c119_f0 Int)) (mk120 (c120_f0 Int)) (mk121 (c121_f0 Int)) (mk122 (c122_f0 Int)) (mk123 (c123_f0 Int)) (mk124 (c124_f0 Int)) (mk125 (c125_f0 Int)) (mk126 (c126_f0 Int)) (mk127 (c127_f0 Int)) (mk128 (c128_f0 Int)) (mk129 (c129_f0 Int)) (mk130 (c130_f0 Int)) (mk131 (c131_f0 Int)) (mk132 (c132_f0 Int)) (mk133 (c133_f0 Int)) (mk134 (c134_f0 Int)) (mk135 (c135_f0 Int)) (mk136 (c136_f0 Int)) (mk137 (c137_f0 Int)) (mk138 (c138_f0 Int)) (mk139 (c139_f0 Int)) (mk140 (c140_f0 Int)) (mk141 (c141_f0 Int)) (mk142 (c142_f0 Int)) (mk143 (c143_f0 Int)) (mk144 (c144_f0 Int)) (mk145 (c145_f0 Int)) (mk146 (c146_f0 Int) (c146_f1 Int) (c146_f2 Int)) (mk147 (c147_f0 Int) (c147_f1 Int) (c147_f2 Int)) (mk148 (c148_f0 Int) (c148_f1 Int) (c148_f2 Int)) (mk149 (c149_f0 Int) (c149_f1 Int) (c149_f2 Int)) (mk150 (c150_f0 Int) (c150_f1 Int) (c150_f2 Int)) (mk151 (c151_f0 Int)) (mk152 (c152_f0 Int) (c152_f1 Int) (c152_f2 Int) (c152_f3 Str)) (mk153 (c153_f0 Int) (c153_f1 Int) (c153_f2 Int) (c153_f3 Str) (c153_f4 Str)) (mk154 (c154_f0 Str)) (mk155 (c155_f0 Str)) (mk156 (c156_f0 Int) (c156_f1 Int) (c156_f2 Int) (c156_f3 Int) (c156_f4 Int) (c156_f5 Int)) (mk157 (c157_f0 Int) (c157_f1 Int) (c157_f2 Int) (c157_f3 Int) (c157_f4 Str) (c157_f5 Str)) (mk158 (c158_f0 Int) (c158_f1 Int) (c158_f2 Int) (c158_f3 Int) (c158_f4 Str)) (mk159 (c159_f0 Int) (c159_f1 Int) (c159_f2 Int) (c159_f3 Int) (c159_f4 Str)) (mk160 (c160_f0 Int) (c160_f1 Int) (c160_f2 Int) (c160_f3 Int)) (mk161 (c161_f0 Int) (c161_f1 Int) (c161_f2 Int) (c161_f3 Int) (c161_f4 Real)) (mk162 (c162_f0 Int) (c162_f1 Int) (c162_f2 Int) (c162_f3 Int) (c162_f4 Str)) (mk163 (c163_f0 Int) (c163_f1 Int) (c163_f2 Int) (c163_f3 Int) (c163_f4 Str)) (mk164 (c164_f0 Int) (c164_f1 Int) (c164_f2 Int) (c164_f3 Int) (c164_f4 Str)) (mk165 (c165_f0 Int) (c165_f1 Int) (c165_f2 Int) (c165_f3 Int) (c165_f4 Str)) (mk166 (c166_f0 Int) (c166_f1 Int) (c166_f2 Int) (c166_f3 Int) (c166_f4 Str) (c166_f5 Str)) (mk167 (c167_f0 Int) (c167_f1 Int) (c167_f2 Int) (c167_f3 Int) (c167_f4 Str) (c167_f5 Str)) (mk168 (c168_f0 Int) (c168_f1 Int) (c168_f2 Int) (c168_f3 Int) (c168_f4 Str) (c168_f5 Int) (c168_f6 Int)) (mk169 (c169_f0 Int) (c169_f1 Int) (c169_f2 Int) (c169_f3 Int) (c169_f4 Str)) (mk170 (c170_f0 Int) (c170_f1 Str)) (mk171 (c171_f0 Int)) (mk172 (c172_f0 Int) (c172_f1 Int) (c172_f2 Int) (c172_f3 Int) (c172_f4 Int)) (mk173 (c173_f0 Int) (c173_f1 Int) (c173_f2 Int) (c173_f3 Int) (c173_f4 Str) (c173_f5 Int)) (mk174 (c174_f0 Real)) (mk175 (c175_f0 Int) (c175_f1 Int) (c175_f2 Int) (c175_f3 Int) (c175_f4 Any)) (mk176 (c176_f0 Int) (c176_f1 Int) (c176_f2 Int) (c176_f3 Int) (c176_f4 Any)) (mk177 (c177_f0 Str) (c177_f1 Int)) (mk178 (c178_f0 Int) (c178_f1 Int)) (mk179 (c179_f0 Str)) (mk180 (c180_f0 Int) (c180_f1 Int) (c180_f2 Int) (c180_f3 Int) (c180_f4 Str) (c180_f5 Any)) (mk181 (c181_f0 Int) (c181_f1 Int) (c181_f2 Int) (c181_f3 Int) (c181_f4 Str)) (mk182 (c182_f0 Int) (c182_f1 Int) (c182_f2 Int) (c182_f3 Int) (c182_f4 Str)) (mk183 (c183_f0 Any) (c183_f1 Int) (c183_f2 Bool) (c183_f3 Int) (c183_f4 Any) (c183_f5 Bool) (c183_f6 Any) (c183_f7 Any) (c183_f8 Bool) (c183_f9 Bool) (c183_f10 Bool) (c183_f11 Any) (c183_f12 Int) (c183_f13 Int) (c183_f14 Any) (c183_f15 Bool) (c183_f16 Bool) (c183_f17 Bool) (c183_f18 Int) (c183_f19 Any) (c183_f20 Any) (c183_f21 Any) (c183_f22 Int) (c183_f23 Any) (c183_f24 Any) (c183_f25 Any) (c183_f26 Int) (c183_f27 Bool) (c183_f28 Str) (c183_f29 Any) (c183_f30 Any) (c183_f31 Str) (c183_f32 Str)) (mk184 (c184_f0 Str) (c184_f1 Int) (c184_f2 Int) (c184_f3 Int) (c184_f4 Int)) (mk185 (c185_f0 Bool) (c185_f1 Real) (c185_f2 Bool) (c185_f3 Bool) (c185_f4 Int)) (mk186 (c186_f0 Int) (c186_f1 Int) (c186_f2 Int) (c186_f3 Int) (c186_f4 Str)) (mk187 (c187_f0 Int) (c187_f1 Int) (c187_f2 Int) (c187_f3 Int) (c187_f4 Str)) (mk188 (c188_f0 Int) (c188_f1 Int) (c188_f2 Int) (c188_f3 Int) (c188_f4 Str) (c188_f5 Any) (c188_f6 Any)) (mk189 (c189_f0 Any)) (mk190 (c190_f0 Int) (c190_f1 Int) (c190_f2 Int) (c190_f3 Int) (c190_f4 Int) (c190_f5 Int) (c190_f6 Int)) (mk191 (c191_f0 Int) (c191_f1 Int) (c191_f2 Int) (c191_f3 Int) (c191_f4 Any) (c191_f5 Any)) (mk192 (c192_f0 Int) (c192_f1 Int) (c192_f2 Int) (c192_f3 Int) (c192_f4 Int) (c192_f5 Int) (c192_f6 Int) (c192_f7 Any)) (mk193 (c193_f0 Int) (c193_f1 Int) (c193_f2 Int) (c193_f3 Int) (c193_f4 Any) (c193_f5 Any)) (mk194 (c194_f0 Int) (c194_f1 Int) (c194_f2 Int) (c194_f3 Int)) (mk195 (c195_f0 Int) (c195_f1 Int) (c195_f2 Int) (c195_f3 Int) (c195_f4 Int) (c195_f5 Int) (c195_f6 Int) (c195_f7 Int)) (mk196 (c196_f0 Int) (c196_f1 Int) (c196_f2 Int) (c196_f3 Int) (c196_f4 Str)) (mk197 (c197_f0 Str)) (mk198 (c198_f0 Int) (c198_f1 Int) (c198_f2 Int) (c198_f3 Int) (c198_f4 Any) (c198_f5 Any)) (mk199 (c199_f0 Int) (c199_f1 Int) (c199_f2 Int) (c199_f3 Int) (c199_f4 Int)) (mk200 (c200_f0 Int) (c200_f1 Int) (c200_f2 Int) (c200_f3 Int)) (mk201 (c201_f0 Int) (c201_f1 Int) (c201_f2 Int) (c201_f3 Int) (c201_f4 Int) (c201_f5 Int)) (mk202 (c202_f0 Int) (c202_f1 Int) (c202_f2 Int) (c202_f3 Int)) (mk203 (c203_f0 Int) (c203_f1 Int) (c203_f2 Int) (c203_f3 Int) (c203_f4 Any) (c203_f5 Any)) (mk204 (c204_f0 Int) (c204_f1 Int) (c204_f2 Int) (c204_f3 Int) (c204_f4 Any) (c204_f5 Any) (c204_f6 Any)) (mk205 (c205_f0 Int) (c205_f1 Int) (c205_f2 Int) (c205_f3 Int) (c205_f4 Any)) (mk206 (c206_f0 Int) (c206_f1 Int) (c206_f2 Int) (c206_f3 Int) (c206_f4 Any)) (mk207 (c207_f0 Any)) (mk208 (c208_f0 Int) (c208_f1 Int) (c208_f2 Int) (c208_f3 Int) (c208_f4 Int) (c208_f5 Int) (c208_f6 Int)) (mk209 (c209_f0 Int) (c209_f1 Int) (c209_f2 Int) (c209_f3 Int) (c209_f4 Any) (c209_f5 Any)) (mk210 (c210_f0 Int) (c210_f1 Int) (c210_f2 Int) (c210_f3 Int) (c210_f4 Any) (c210_f5 Any)) (mk211 (c211_f0 Int) (c211_f1 Int) (c211_f2 Int) (c211_f3 Int) (c211_f4 Int) (c211_f5 Int) (c211_f6 Int)) (mk212 (c212_f0 Int) (c212_f1 Int) (c212_f2 Int) (c212_f3 Int) (c212_f4 Any) (c212_f5 Int)) (mk213 (c213_f0 Int) (c213_f1 Int) (c213_f2 Int) (c213_f3 Int) (c213_f4 Str)) (mk214 (c214_f0 Int) (c214_f1 Int) (c214_f2 Int) (c214_f3 Int) (c214_f4 Str)) (mk215 (c215_f0 Int) (c215_f1 Int) (c215_f2 Int) (c215_f3 Int) (c215_f4 Int) (c215_f5 Int) (c215_f6 Int)) (mk216 (c216_f0 Int) (c216_f1 Int) (c216_f2 Int) (c216_f3 Int) (c216_f4 Str)) (mk217 (c217_f0 Str) (c217_f1 Int) (c217_f2 Int) (c217_f3 Str) (c217_f4 Bool) (c217_f5 Bool) (c217_f6 Int) (c217_f7 Int) (c217_f8 Int) (c217_f9 Int)) (mk218 (c218_f0 Int) (c218_f1 Str) (c218_f2 Bool) (c218_f3 Int) (c218_f4 Int) (c218_f5 Int)) (mk219 (c219_f0 Int)) (mk220 (c220_f0 Int)) (mk221 (c221_f0 Int)) (mk222 (c222_f0 Str)))))
(declare-fun str_2 () Str)
(declare-fun str_1 () Str)
(declare-fun str_0 () Str)
(declare-fun slen (Str) Int)
(declare-fun srunes (Str) Int)
(declare-fun |H\|interpreter.argsParser\|args#arr\|Int@0| () (Array Int Int))
(declare-fun alloc@0 () Int)
(declare-fun |MV\|map[string][]string\|#arr\|Int@0| () (Array Int (Array Str Int)))
(declare-fun |MV\|map[string]map[string]string\|\|Int@0| () (Array Int (Array Str Int)))
(declare-fun |H\|interpreter.programState\|CachedAccountsMeta\|Int@0| () (Array Int Int))
(declare-fun in_s () Int)
(declare-fun in_rng () Int)
(declare-fun in_rng_1 () Int)
(declare-fun in_rng_2 () Int)
(declare-fun in_rng_3 () Int)
(declare-fun in_args_2 () Int)
(declare-fun in_args () Int)
(declare-fun |H\|interpreter.programState\|Store\|Any@0| () (Array Int Any))
(declare-fun |A\|interface{String() string; value()}\|\|Any@0| () (Array Int (Array Int Any)))
(declare-fun |H\|interpreter.argsParser\|args#len\|Int@0| () (Array Int Int))
(declare-fun |H\|interpreter.argsParser\|parsedArgsCount\|Int@0| () (Array Int Int))
(declare-fun x_GetAccountsM!9 () Int)
(declare-fun |MD\|map[string]map[string]string@0| () (Array Int (Array Str Bool)))
(declare-fun x_GetAccountsM!10 () Any)
(declare-fun |H\|string\|\|Str@0| () (Array Int Str))
(assert
 (and (distinct str_0 str_1 str_2) true))
(assert
 (= (slen str_0) 0))
(assert
 (= (srunes str_0) 0))
(assert
 (let ((?x15987 (slen str_1)))
 (= ?x15987 6)))
(assert
 (let ((?x15412 (srunes str_1)))
 (= ?x15412 6)))
(assert
 (let ((?x17642 (slen str_2)))
 (= ?x17642 7)))
(assert
 (let ((?x13410 (srunes str_2)))
 (= ?x13410 7)))
(assert
 (forall ((r!wt Int) )(! (let ((?x55783 (select |H\|interpreter.argsParser\|args#arr\|Int@0| r!wt)))
 (let (($x43411 (>= ?x55783 0)))
 (and $x43411 (< ?x55783 alloc@0)))) :pattern ( (select |H\|interpreter.argsParser\|args#arr\|Int@0| r!wt) ) :qid q_r_wt_H_interpreter.argsParser_args_arr_Int_0))
 )
(assert
 (forall ((r!wt Int) (k!wt Str) )(! (let ((?x1461 (select (select |MV\|map[string][]string\|#arr\|Int@0| r!wt) k!wt)))
 (let (($x1369 (>= ?x1461 0)))
 (and $x1369 (< ?x1461 alloc@0)))) :pattern ( (select (select |MV\|map[string][]string\|#arr\|Int@0| r!wt) k!wt) ) :qid q_r_wt_MV_map_string___string__arr_Int_0))
 )
(assert
 (forall ((r!wt Int) (k!wt Str) )(! (let ((?x14535 (select (select |MV\|map[string]map[string]string\|\|Int@0| r!wt) k!wt)))
 (let (($x14311 (>= ?x14535 0)))
 (and $x14311 (< ?x14535 alloc@0)))) :pattern ( (select (select |MV\|map[string]map[string]string\|\|Int@0| r!wt) k!wt) ) :qid q_r_wt_MV_map_string_map_string_string__Int_0))
 )
(assert
 (forall ((r!wt Int) )(! (let ((?x7192 (select |H\|interpreter.programState\|CachedAccountsMeta\|Int@0| r!wt)))
 (let (($x19971 (>= ?x7192 0)))
 (and $x19971 (< ?x7192 alloc@0)))) :pattern ( (select |H\|interpreter.programState\|CachedAccountsMeta\|Int@0| r!wt) ) :qid q_r_wt_H_interpreter.programState_CachedAccountsMeta_Int_0))
 )
(assert
 (>= alloc@0 1))
(assert
 (let (($x4890 (>= in_s 0)))
 (and $x4890 (< in_s alloc@0))))
(assert
 (let (($x17394 (<= in_rng 9223372036854775807)))
 (let (($x7222 (>= in_rng (- 9223372036854775808))))
 (and $x7222 $x17394))))
(assert
 (let (($x12689 (<= in_rng_1 9223372036854775807)))
 (let (($x7762 (>= in_rng_1 (- 9223372036854775808))))
 (and $x7762 $x12689))))
(assert
 (let (($x12381 (<= in_rng_2 9223372036854775807)))
 (let (($x14435 (>= in_rng_2 (- 9223372036854775808))))
 (and $x14435 $x12381))))
(assert
 (let (($x17295 (<= in_rng_3 9223372036854775807)))
 (let (($x12490 (>= in_rng_3 (- 9223372036854775808))))
 (and $x12490 $x17295))))
(assert
 (let (($x37574 (= in_args_2 0)))
 (let (($x40315 (= in_args 0)))
 (=> $x40315 $x37574))))
(assert
 (let (($x46276 (>= in_args 0)))
 (and $x46276 (< in_args alloc@0))))
(assert
 (>= 0 0))
(assert
 (>= in_args_2 0))
(assert
 (let (($x30844 (not (= (select |H\|interpreter.programState\|Store\|Any@0| in_s) nil))))
 (let (($x6130 (not (= in_s 0))))
 (and $x6130 $x30844))))
(assert
 (forall ((i!b Int) )(! (let ((?x24183 (select |A\|interface{String() string; value()}\|\|Any@0| in_args)))
 (let ((?x41067 (select ?x24183 i!b)))
 (let (($x37992 ((_ is mk170 ) ?x41067)))
 (let (($x52452 ((_ is mk171 ) ?x41067)))
 (let (($x46231 (or (or (or (or (or ((_ is mk179 ) ?x41067) ((_ is mk155 ) ?x41067)) ((_ is mk154 ) ?x41067)) ((_ is mk174 ) ?x41067)) $x52452) $x37992)))
 (=> (and (<= 0 i!b) (< i!b in_args_2)) $x46231)))))) :qid q_i_b_nopat))
 )
(assert
 (not (= alloc@0 0)))
(assert
 (not (= alloc@0 0)))
(assert
 (not (= alloc@0 0)))
(assert
 (not (= alloc@0 0)))
(assert
 (not (= alloc@0 0)))
(assert
 (not (= alloc@0 0)))
(assert
 (not (= alloc@0 0)))
(assert
 (not (= alloc@0 0)))
(assert
 (not (= alloc@0 0)))
(assert
 (not (= alloc@0 0)))
(assert
 (not (= alloc@0 0)))
(assert
 (not (= alloc@0 0)))
(assert
 (let ((?x24469 (store (store |H\|interpreter.argsParser\|args#len\|Int@0| alloc@0 0) alloc@0 in_args_2)))
 (let ((?x22525 (select ?x24469 alloc@0)))
 (let ((?x54364 (store (store |H\|interpreter.argsParser\|args#arr\|Int@0| alloc@0 0) alloc@0 in_args)))
 (let ((?x8868 (select ?x54364 alloc@0)))
 (=> (= ?x8868 0) (= ?x22525 0)))))))
(assert
 (let ((?x5343 (+ alloc@0 1)))
 (let ((?x54364 (store (store |H\|interpreter.argsParser\|args#arr\|Int@0| alloc@0 0) alloc@0 in_args)))
 (let ((?x8868 (select ?x54364 alloc@0)))
 (let (($x45225 (>= ?x8868 0)))
 (and $x45225 (< ?x8868 ?x5343)))))))
(assert
 (>= 0 0))
(assert
 (let ((?x24469 (store (store |H\|interpreter.argsParser\|args#len\|Int@0| alloc@0 0) alloc@0 in_args_2)))
 (let ((?x22525 (select ?x24469 alloc@0)))
 (>= ?x22525 0))))
(assert
 (let (($x47336 (>= 0 in_args_2)))
 (not $x47336)))
(assert
 (not (= alloc@0 0)))
(assert
 (not (= alloc@0 0)))
(assert
 (let ((?x24469 (store (store |H\|interpreter.argsParser\|args#len\|Int@0| alloc@0 0) alloc@0 in_args_2)))
 (let ((?x22525 (select ?x24469 alloc@0)))
 (let ((?x54364 (store (store |H\|interpreter.argsParser\|args#arr\|Int@0| alloc@0 0) alloc@0 in_args)))
 (let ((?x8868 (select ?x54364 alloc@0)))
 (=> (= ?x8868 0) (= ?x22525 0)))))))
(assert
 (let ((?x5343 (+ alloc@0 1)))
 (let ((?x54364 (store (store |H\|interpreter.argsParser\|args#arr\|Int@0| alloc@0 0) alloc@0 in_args)))
 (let ((?x8868 (select ?x54364 alloc@0)))
 (let (($x45225 (>= ?x8868 0)))
 (and $x45225 (< ?x8868 ?x5343)))))))
(assert
 (>= 0 0))
(assert
 (let ((?x24469 (store (store |H\|interpreter.argsParser\|args#len\|Int@0| alloc@0 0) alloc@0 in_args_2)))
 (let ((?x22525 (select ?x24469 alloc@0)))
 (>= ?x22525 0))))
(assert
 (let ((?x24469 (store (store |H\|interpreter.argsParser\|args#len\|Int@0| alloc@0 0) alloc@0 in_args_2)))
 (let ((?x22525 (select ?x24469 alloc@0)))
 (let ((?x53770 (store |H\|interpreter.argsParser\|parsedArgsCount\|Int@0| alloc@0 0)))
 (let ((?x30630 (select ?x53770 alloc@0)))
 (and (>= ?x30630 0) (< ?x30630 ?x22525)))))))
(assert
 (let ((?x24183 (select |A\|interface{String() string; value()}\|\|Any@0| in_args)))
 (let ((?x27785 (select ?x24183 0)))
 ((_ is mk154 ) ?x27785))))
(assert
 (not (= alloc@0 (- 1))))
(assert
 (not (= alloc@0 0)))
(assert
 (not (= alloc@0 0)))
(assert
 (not (= alloc@0 0)))
(assert
 (not (= alloc@0 0)))
(assert
 (not (= alloc@0 0)))
(assert
 (not (= alloc@0 0)))
(assert
 (not (= alloc@0 0)))
(assert
 (not (= alloc@0 0)))
(assert
 (not (= alloc@0 0)))
(assert
 (not (= alloc@0 0)))
(assert
 (let ((?x24469 (store (store |H\|interpreter.argsParser\|args#len\|Int@0| alloc@0 0) alloc@0 in_args_2)))
 (let ((?x22525 (select ?x24469 alloc@0)))
 (let ((?x54364 (store (store |H\|interpreter.argsParser\|args#arr\|Int@0| alloc@0 0) alloc@0 in_args)))
 (let ((?x8868 (select ?x54364 alloc@0)))
 (=> (= ?x8868 0) (= ?x22525 0)))))))
(assert
 (let ((?x5343 (+ alloc@0 1)))
 (let ((?x5367 (+ ?x5343 1)))
 (let ((?x54364 (store (store |H\|interpreter.argsParser\|args#arr\|Int@0| alloc@0 0) alloc@0 in_args)))
 (let ((?x8868 (select ?x54364 alloc@0)))
 (let (($x45225 (>= ?x8868 0)))
 (and $x45225 (< ?x8868 ?x5367))))))))
(assert
 (>= 0 0))
(assert
 (let ((?x24469 (store (store |H\|interpreter.argsParser\|args#len\|Int@0| alloc@0 0) alloc@0 in_args_2)))
 (let ((?x22525 (select ?x24469 alloc@0)))
 (>= ?x22525 0))))
(assert
 (let (($x26729 (>= 1 in_args_2)))
 (not $x26729)))
(assert
 (not (= alloc@0 0)))
(assert
 (not (= alloc@0 0)))
(assert
 (let ((?x24469 (store (store |H\|interpreter.argsParser\|args#len\|Int@0| alloc@0 0) alloc@0 in_args_2)))
 (let ((?x22525 (select ?x24469 alloc@0)))
 (let ((?x54364 (store (store |H\|interpreter.argsParser\|args#arr\|Int@0| alloc@0 0) alloc@0 in_args)))
 (let ((?x8868 (select ?x54364 alloc@0)))
 (=> (= ?x8868 0) (= ?x22525 0)))))))
(assert
 (let ((?x5343 (+ alloc@0 1)))
 (let ((?x5367 (+ ?x5343 1)))
 (let ((?x54364 (store (store |H\|interpreter.argsParser\|args#arr\|Int@0| alloc@0 0) alloc@0 in_args)))
 (let ((?x8868 (select ?x54364 alloc@0)))
 (let (($x45225 (>= ?x8868 0)))
 (and $x45225 (< ?x8868 ?x5367))))))))
(assert
 (>= 0 0))
(assert
 (let ((?x24469 (store (store |H\|interpreter.argsParser\|args#len\|Int@0| alloc@0 0) alloc@0 in_args_2)))
 (let ((?x22525 (select ?x24469 alloc@0)))
 (>= ?x22525 0))))
(assert
 (let ((?x24469 (store (store |H\|interpreter.argsParser\|args#len\|Int@0| alloc@0 0) alloc@0 in_args_2)))
 (let ((?x22525 (select ?x24469 alloc@0)))
 (let ((?x53770 (store |H\|interpreter.argsParser\|parsedArgsCount\|Int@0| alloc@0 0)))
 (let ((?x30630 (select ?x53770 alloc@0)))
 (let ((?x35246 (store ?x53770 alloc@0 (+ ?x30630 1))))
 (let ((?x37633 (select ?x35246 alloc@0)))
 (and (>= ?x37633 0) (< ?x37633 ?x22525)))))))))
(assert
 (let ((?x24183 (select |A\|interface{String() string; value()}\|\|Any@0| in_args)))
 (let ((?x34543 (select ?x24183 1)))
 ((_ is mk179 ) ?x34543))))
(assert
 (not (= alloc@0 (- 2))))
(assert
 (not (= alloc@0 0)))
(assert
 (not (= alloc@0 0)))
(assert
 (let ((?x24469 (store (store |H\|interpreter.argsParser\|args#len\|Int@0| alloc@0 0) alloc@0 in_args_2)))
 (let ((?x22525 (select ?x24469 alloc@0)))
 (let ((?x54364 (store (store |H\|interpreter.argsParser\|args#arr\|Int@0| alloc@0 0) alloc@0 in_args)))
 (let ((?x8868 (select ?x54364 alloc@0)))
 (=> (= ?x8868 0) (= ?x22525 0)))))))
(assert
 (let ((?x5343 (+ alloc@0 1)))
 (let ((?x5367 (+ ?x5343 1)))
 (let ((?x5379 (+ ?x5367 1)))
 (let ((?x54364 (store (store |H\|interpreter.argsParser\|args#arr\|Int@0| alloc@0 0) alloc@0 in_args)))
 (let ((?x8868 (select ?x54364 alloc@0)))
 (let (($x45225 (>= ?x8868 0)))
 (and $x45225 (< ?x8868 ?x5379)))))))))
(assert
 (>= 0 0))
(assert
 (let ((?x24469 (store (store |H\|interpreter.argsParser\|args#len\|Int@0| alloc@0 0) alloc@0 in_args_2)))
 (let ((?x22525 (select ?x24469 alloc@0)))
 (>= ?x22525 0))))
(assert
 (not (= alloc@0 0)))
(assert
 (not (= alloc@0 0)))
(assert
 (let (($x43045 (= in_args_2 2)))
 (let (($x36538 (not $x43045)))
 (not $x36538))))
(assert
 (not (= alloc@0 0)))
(assert
 (not (= alloc@0 0)))
(assert
 (not (= in_s 0)))
(assert
 (not (= in_s 0)))
(assert
 (not (= in_s 0)))
(assert
 (not (= in_s 0)))
(assert
 (not (= alloc@0 (- 1))))
(assert
 (let (($x91 (>= 0 0)))
 (and $x91 (< 0 1))))
(assert
 (not (= alloc@0 (- 2))))
(assert
 (let (($x91 (>= 0 0)))
 (and $x91 (<= 0 1) (<= 1 1))))
(assert
 (let ((?x5343 (+ alloc@0 1)))
 (let ((?x5367 (+ ?x5343 1)))
 (let ((?x5379 (+ ?x5367 1)))
 (and (distinct ?x5379 0) true)))))
(assert
 (let ((?x46804 (select |H\|interpreter.programState\|Store\|Any@0| in_s)))
 (and (distinct ?x46804 nil) true)))
(assert
 (let ((?x5343 (+ alloc@0 1)))
 (let ((?x5367 (+ ?x5343 1)))
 (let ((?x5379 (+ ?x5367 1)))
 (let ((?x5323 (+ ?x5379 1)))
 (let ((?x15625 (+ ?x5323 1)))
 (let (($x18343 (>= x_GetAccountsM!9 0)))
 (and $x18343 (< x_GetAccountsM!9 ?x15625)))))))))
(assert
 (< x_GetAccountsM!9 alloc@0))
(assert
 (< x_GetAccountsM!9 in_s))
(assert
 (let (($x17580 (forall ((a!b Str) )(! (let ((?x7771 (select |MV\|map[string]map[string]string\|\|Int@0| x_GetAccountsM!9)))
 (let ((?x13316 (select ?x7771 a!b)))
 (let ((?x14236 (select |MD\|map[string]map[string]string@0| x_GetAccountsM!9)))
 (let (($x16374 (select ?x14236 a!b)))
 (let (($x15537 (and (distinct x_GetAccountsM!9 0) true)))
 (let (($x15742 (and $x15537 $x16374)))
 (let ((?x19265 (ite $x15742 ?x13316 0)))
 (=> $x15742 (and (>= ?x19265 0) (< ?x19265 in_s)))))))))) :qid q_a_b_nopat))
 ))
 (and (and (>= x_GetAccountsM!9 0) (< x_GetAccountsM!9 in_s)) $x17580)))
(assert
 (let (($x14514 (= x_GetAccountsM!10 nil)))
 (let (($x7121 (not $x14514)))
 (not $x7121))))
(assert
 (not (= in_s 0)))
(assert
 (not (= in_s 0)))
(assert
 (not (= in_s 0)))
(assert
 (not (= in_s 0)))
(assert
 (let ((?x5343 (+ alloc@0 1)))
 (let ((?x5367 (+ ?x5343 1)))
 (let ((?x5379 (+ ?x5367 1)))
 (let ((?x5323 (+ ?x5379 1)))
 (let ((?x15625 (+ ?x5323 1)))
 (let ((?x18781 (store |H\|interpreter.programState\|CachedAccountsMeta\|Int@0| in_s x_GetAccountsM!9)))
 (let ((?x12433 (select ?x18781 in_s)))
 (and (>= ?x12433 0) (< ?x12433 ?x15625))))))))))
(assert
 (not (= alloc@0 (- 1))))
(assert
 (let ((?x5343 (+ alloc@0 1)))
 (let ((?x5367 (+ ?x5343 1)))
 (let ((?x5379 (+ ?x5367 1)))
 (let ((?x5323 (+ ?x5379 1)))
 (let ((?x15625 (+ ?x5323 1)))
 (let ((?x53770 (store |H\|interpreter.argsParser\|parsedArgsCount\|Int@0| alloc@0 0)))
 (let ((?x30630 (select ?x53770 alloc@0)))
 (let ((?x35246 (store ?x53770 alloc@0 (+ ?x30630 1))))
 (let ((?x37633 (select ?x35246 alloc@0)))
 (let ((?x54364 (store (store |H\|interpreter.argsParser\|args#arr\|Int@0| alloc@0 0) alloc@0 in_args)))
 (let ((?x8868 (select ?x54364 alloc@0)))
 (let ((?x23053 (select |A\|interface{String() string; value()}\|\|Any@0| ?x8868)))
 (let ((?x36180 (select ?x23053 ?x37633)))
 (let ((?x25207 (store (store |H\|string\|\|Str@0| ?x5343 str_0) ?x5343 (ite ((_ is mk154 ) (select ?x23053 ?x30630)) (c154_f0 (select ?x23053 ?x30630)) str_0))))
 (let ((?x27333 (store ?x25207 ?x5367 str_0)))
 (let ((?x21090 (store ?x27333 ?x5367 (ite ((_ is mk179 ) ?x36180) (c179_f0 ?x36180) str_0))))
 (let ((?x8646 (select ?x21090 ?x5343)))
 (let ((?x18781 (store |H\|interpreter.programState\|CachedAccountsMeta\|Int@0| in_s x_GetAccountsM!9)))
 (let ((?x12433 (select ?x18781 in_s)))
 (let ((?x10428 (select |MV\|map[string]map[string]string\|\|Int@0| ?x12433)))
 (let (($x8233 (and (distinct ?x12433 0) true)))
 (let (($x16870 (and $x8233 (select (select |MD\|map[string]map[string]string@0| ?x12433) ?x8646))))
 (let ((?x3631 (ite $x16870 (select ?x10428 ?x8646) 0)))
 (and (>= ?x3631 0) (< ?x3631 ?x15625))))))))))))))))))))))))))
(assert
 (let ((?x19841 (+ 1 alloc@0)))
 (let ((?x24183 (select |A\|interface{String() string; value()}\|\|Any@0| in_args)))
 (let ((?x34543 (select ?x24183 1)))
 (let ((?x7056 (c179_f0 ?x34543)))
 (let (($x16434 ((_ is mk179 ) ?x34543)))
 (let ((?x18058 (ite $x16434 ?x7056 str_0)))
 (let ((?x7852 (+ 2 alloc@0)))
 (let ((?x19276 (store |H\|string\|\|Str@0| ?x19841 (ite ((_ is mk154 ) (select ?x24183 0)) (c154_f0 (select ?x24183 0)) str_0))))
 (let ((?x13795 (store ?x19276 ?x7852 ?x18058)))
 (let ((?x13676 (select ?x13795 ?x19841)))
 (let ((?x14236 (select |MD\|map[string]map[string]string@0| x_GetAccountsM!9)))
 (let (($x13494 (= x_GetAccountsM!9 0)))
 (let (($x7254 (not $x13494)))
 (let (($x15941 (and $x7254 (select ?x14236 ?x13676))))
 (not $x15941))))))))))))))))
(assert
 (let ((?x18781 (store |H\|interpreter.programState\|CachedAccountsMeta\|Int@0| in_s x_GetAccountsM!9)))
 (let ((?x12433 (select ?x18781 in_s)))
 (and (distinct ?x12433 0) true))))
(assert
 (let (($x19445 (>= x_GetAccountsM!9 alloc@0)))
(not $x19445)))
(check-sat)
